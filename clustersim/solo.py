"""E3 helper: one real Supvisors instance (index 0) of an N-instance configuration, peers are puppets."""
from __future__ import annotations

from typing import Dict, Optional

from clustersim.world import World, SimInstance

DEFAULT_OPTS = {'synchro_options': 'TIMEOUT', 'synchro_timeout': '15', 'stats_enabled': 'false',
                'event_link': 'NONE', 'inactivity_ticks': '2', 'auto_fence': 'false'}


def make_solo(n: int, programs: Dict[str, Dict[str, dict]], rules_xml: Optional[str],
              options: Optional[Dict[str, str]] = None, nodes=None, local_programs=None):
    """Build a world of n declared instances and boot only the first one."""
    w = World()
    nodes = nodes or list(range(n))
    hosts = {}
    for node in nodes:
        if node not in hosts:
            hosts[node] = w.add_host()
    slist = ','.join(f'<s{i + 1}>{hosts[nodes[i]].name}:{60001 + i}' for i in range(n))
    opts = dict(DEFAULT_OPTS)
    opts['supvisors_list'] = slist
    if options:
        opts.update(options)
    for i in range(n):
        progs = programs if (i > 0 or local_programs is None) else local_programs
        w.add_instance(hosts[nodes[i]], 60001 + i, f's{i + 1}', opts, progs, rules_xml, phase=0)
    inst: SimInstance = w.instances[0]
    ok = inst.boot()
    if not ok:
        raise RuntimeError(f'solo instance refused its configuration: {inst.boot_error}')
    return w, inst
