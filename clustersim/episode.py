"""Episodes: generated configuration + history, and the deterministic interpreter that runs them on a World.

An episode is a JSON-serialisable dict (so that it can be written as a replay file and re-run without Hypothesis):

    {'config': {...}, 'steps': [{'ops': [...], 'hold': [[owner, dest], ...], 'order': int, 'inject': int}, ...],
     'suffix': K, 'suffix_boot': bool}

Virtual time advances by one second per step. All-zero / empty step records mean "deliver everything at once in
canonical order, no fault", so Hypothesis shrinks towards the benign schedule.
"""
from __future__ import annotations

import random
from typing import Any, Dict, List, Optional
from xml.sax.saxutils import escape

from hypothesis import strategies as st

from clustersim.world import World, Behaviour, SimInstance

SYNC_OPTS = ['STRICT', 'LIST', 'TIMEOUT', 'CORE', 'USER']
CONCILIATION = ['SENICIDE', 'INFANTICIDE', 'USER', 'STOP', 'RESTART', 'RUNNING_FAILURE']
STARTING = ['CONFIG', 'LESS_LOADED', 'MOST_LOADED', 'LOCAL', 'LESS_LOADED_NODE', 'MOST_LOADED_NODE']
SV_FAILURE = ['CONTINUE', 'RESYNC', 'SHUTDOWN']
STARTING_FAILURE = ['ABORT', 'CONTINUE', 'STOP']
RUNNING_FAILURE = ['CONTINUE', 'RESTART_PROCESS', 'STOP_APPLICATION', 'RESTART_APPLICATION', 'SHUTDOWN', 'RESTART']
DISTRIBUTION = ['ALL_INSTANCES', 'SINGLE_INSTANCE', 'SINGLE_NODE']


# ---------------------------------------------------------------------------------------------------------------------
# configuration -> files
def nick(i: int) -> str:
    return f's{i + 1}'


def rules_xml(config: dict) -> Optional[str]:
    apps = [a for a in config.get('apps', []) if a.get('managed', True)]
    if not apps and not config.get('force_rules'):
        return None
    out = ['<?xml version="1.0" encoding="UTF-8" standalone="no"?>', '<root>']
    for app in apps:
        out.append(f'  <application name="{escape(app["name"])}">')
        for key, val in app.get('rules', {}).items():
            out.append(f'    <{key}>{escape(_fmt(val, config))}</{key}>')
        progs = [p for p in app['programs'] if p.get('rules')]
        if progs:
            out.append('    <programs>')
            for prog in progs:
                attr = 'pattern' if prog.get('pattern') else 'name'
                out.append(f'      <program {attr}="{escape(prog.get("pattern") or prog["name"])}">')
                for key, val in prog['rules'].items():
                    out.append(f'        <{key}>{escape(_fmt(val, config))}</{key}>')
                out.append('      </program>')
            out.append('    </programs>')
        out.append('  </application>')
    out.append('</root>')
    return '\n'.join(out) + '\n'


def _fmt(val, config) -> str:
    if isinstance(val, bool):
        return 'true' if val else 'false'
    if isinstance(val, list):   # identifiers given as instance indexes / strings
        return ','.join(nick(x) if isinstance(x, int) else str(x) for x in val)
    return str(val)


def sv_options(config: dict, i: int) -> Dict[str, str]:
    n = config['n']
    opts = dict(config['options'])
    opts.update(config.get('inst_options', {}).get(str(i), {}))
    hosts = config['nodes']
    slist = ','.join(f'<{nick(k)}>host{hosts[k] + 1}:{60001 + k}' for k in range(n))
    out = {'supvisors_list': slist, 'stats_enabled': 'false', 'event_link': 'NONE'}
    for key, val in opts.items():
        if key == 'core':
            if val:
                out['core_identifiers'] = ','.join(nick(k) for k in val)
        elif isinstance(val, bool):
            out[key] = 'true' if val else 'false'
        elif val is not None:
            out[key] = str(val)
    return out


def programs_for(config: dict, i: int) -> Dict[str, Dict[str, dict]]:
    groups: Dict[str, Dict[str, dict]] = {}
    for app in config.get('apps', []):
        for prog in app['programs']:
            known = prog.get('known_by')
            if known is not None and i not in known:
                continue
            groups.setdefault(app['name'], {})[prog['name']] = dict(prog.get('sup', {}))
    return groups


def build_world(config: dict) -> World:
    w = World()
    nhosts = max(config['nodes']) + 1
    mono = config.get('mono', [])
    for h in range(nhosts):
        w.add_host(mono_offset=float(mono[h]) if h < len(mono) else 0.0, wall_offset=1.7e9 + 37.0 * h)
    xml = rules_xml(config)
    default = config.get('default_behaviour')
    if default == 'unkillable':
        w.default_behaviour = Behaviour(term_delay=None, kill_delay=None)
    elif default == 'very_slow_stop':
        w.default_behaviour = Behaviour(term_delay=30)
    elif default == 'ignore_term':
        w.default_behaviour = Behaviour(term_delay=None)
    for i in range(config['n']):
        inst = w.add_instance(w.hosts[config['nodes'][i]], 60001 + i, nick(i), sv_options(config, i),
                              programs_for(config, i), xml, phase=config['phases'][i] % 5)
        for key, script in config.get('behaviours', {}).items():
            idx, namespec = key.split('|', 1)
            if int(idx) == i:
                inst.behaviours[namespec] = [Behaviour.from_json(b) for b in script]
        # a wait_exit program is expected to exit by itself: unless a behaviour script says otherwise it exits with
        # code 0 shortly after startsecs (a wait_exit program that never exits is the documented exception of C10)
        for app in config.get('apps', []):
            for prog in app['programs']:
                namespec = f'{app["name"]}:{prog["name"]}'
                if prog.get('rules', {}).get('wait_exit') and not config.get('allow_wait_exit_forever'):
                    after = int(prog.get('sup', {}).get('startsecs', 1)) + 2
                    script = inst.behaviours.get(namespec) or [Behaviour()]
                    for beh in script:
                        if beh.exit_after is None and not beh.spawn_error:
                            beh.exit_after = after
                    inst.behaviours[namespec] = script
    return w


# ---------------------------------------------------------------------------------------------------------------------
# interpreter
class Runner:
    def __init__(self, episode: dict, monitors: Optional[list] = None):
        self.episode = episode
        self.config = episode['config']
        self.world = build_world(self.config)
        self.world.monitors = list(monitors or [])
        for m in self.world.monitors:
            if hasattr(m, 'attach'):
                m.attach(self)
        self.held: Dict[tuple, int] = {}
        self.max_delay = int(self.config.get('max_delay', 3))
        self.inject = 0
        self.world.interleave = self._interleave
        self.pending_boot: Dict[int, float] = {}
        self.op_log: List[tuple] = []
        self.drop_budget: Dict[int, int] = {}
        self.faults_applied = 0
        self.in_suffix = False

    # --- helpers
    def inst(self, i: int) -> SimInstance:
        return self.world.instances[i % len(self.world.instances)]

    def ident(self, i: int) -> str:
        return self.inst(i).identifier

    def _interleave(self, world: World, src, dst, method) -> None:
        k = self.inject
        if k <= 0:
            return
        served = 0
        for inst, ident, proxy in world.pending():
            if served >= k:
                break
            # never the queue currently being processed (src -> dst)
            if inst is src and ident == dst.identifier:
                continue
            world.serve(inst, proxy)
            served += 1
        if served:
            world.obs('interleaved', src.idx, dst.idx, method, served)

    def boot_all(self) -> None:
        late = self.config.get('late', {})
        for inst in self.world.instances:
            if str(inst.idx) in late:
                self.pending_boot[inst.idx] = float(late[str(inst.idx)])
            else:
                inst.boot()

    # --- operations
    def apply_op(self, op) -> None:
        w = self.world
        kind = op[0]
        self.op_log.append((w.now, tuple(op)))
        if kind == 'crash':
            inst = self.inst(op[1])
            if inst.alive:
                inst.crash()
                self.faults_applied += 1
        elif kind == 'crash_target':
            # crash an instance (not the emitter) that some Starter is waiting for: mode 0 = the process is still
            # STOPPED there (request in flight or swallowed), mode 1 = any outstanding start command
            cands = []
            for x in w.instances:
                if not x.alive or x.supvisors is None:
                    continue
                for job in list(x.supvisors.starter.current_jobs.values()):
                    for cmd in list(job.current_jobs):
                        t = w.by_identifier(cmd.identifier) if cmd.identifier else None
                        if t is None or not t.alive or t is x:
                            continue
                        if int(op[2]) == 1 or t.truth().get(cmd.process.namespec) in (0, 100, 200):
                            cands.append(t)
            if cands:
                cands[int(op[1]) % len(cands)].crash()
                self.faults_applied += 1
        elif kind == 'restart_checked':
            # quick restart of an instance that some observer currently holds in the handshake window (CHECKING / CHECKED)
            cands = []
            for x in w.instances:
                if not x.alive or x.supvisors is None:
                    continue
                for ident, status in x.supvisors.context.instances.items():
                    peer = w.by_identifier(ident)
                    if peer is not None and peer is not x and peer.alive and status.state.name in ('CHECKING', 'CHECKED') \
                            and peer not in cands:
                        cands.append(peer)
            if cands:
                peer = cands[int(op[1]) % len(cands)]
                peer.crash()
                self.faults_applied += 1
                down = int(op[2])
                if down <= 0:
                    peer.boot()
                else:
                    self.pending_boot[peer.idx] = w.now + down
        elif kind == 'rpc_master':
            # a user XML-RPC issued on the instance that most live instances hold as Master
            votes = {}
            for x in w.instances:
                if x.alive and x.supvisors is not None and x.supvisors.state_modes.master_identifier:
                    votes[x.supvisors.state_modes.master_identifier] = votes.get(x.supvisors.state_modes.master_identifier, 0) + 1
            if votes:
                master = w.by_identifier(sorted(votes, key=lambda k: (-votes[k], k))[0])
                if master is not None and master.alive:
                    res = master.call('supvisors', op[1], *op[2])
                    w.obs('user_result', master.idx, op[1], res[0], res[1] if len(res) > 1 and res[0] == 'fault' else None)
        elif kind == 'exit_running':
            # unexpected / expected exit of the k-th child that is truly RUNNING somewhere
            cands = [(x, n) for x in w.instances if x.alive for n, state in sorted(x.truth().items()) if state == 20]
            if cands:
                x, n = cands[int(op[1]) % len(cands)]
                self._child_exit(x, n, int(op[2]))
        elif kind == 'crash_host':
            # crash the k-th instance, not Master, that hosts at least one RUNNING child
            cands = [x for x in w.instances if x.alive and any(state == 20 for state in x.truth().values())
                     and not (x.supvisors is not None and x.supvisors.state_modes.is_master())]
            if cands and sum(1 for x in w.instances if x.alive) > 1:
                cands[int(op[1]) % len(cands)].crash()
                self.faults_applied += 1
        elif kind == 'crash_master':
            # crash the instance that most live instances hold as Master (only if it has company)
            votes = {}
            for x in w.instances:
                if x.alive and x.supvisors is not None and x.supvisors.state_modes.master_identifier:
                    votes[x.supvisors.state_modes.master_identifier] = votes.get(x.supvisors.state_modes.master_identifier, 0) + 1
            if votes and sum(1 for x in w.instances if x.alive) > 1:
                master = w.by_identifier(sorted(votes, key=lambda k: (-votes[k], k))[0])
                if master is not None and master.alive:
                    master.crash()
                    self.faults_applied += 1
                    down = int(op[1])
                    if down > 0:
                        self.pending_boot[master.idx] = w.now + down
        elif kind == 'boot':
            inst = self.inst(op[1])
            if not inst.alive and inst.restart_at is None:
                inst.boot()
        elif kind == 'restart':
            inst = self.inst(op[1])
            if inst.alive:
                inst.crash()
                self.faults_applied += 1
                down = int(op[2])
                if down <= 0:
                    inst.boot()
                else:
                    self.pending_boot[inst.idx] = w.now + down
        elif kind == 'cut':
            a, b = self.inst(op[1]).idx, self.inst(op[2]).idx
            if a != b:
                w.cut(a, b)
                self.faults_applied += 1
        elif kind == 'mute':        # one-way loss: what a sends to b is lost (b -> a still works)
            a, b = self.inst(op[1]).idx, self.inst(op[2]).idx
            if a != b:
                w.cut_oneway(a, b)
                self.faults_applied += 1
        elif kind == 'isolate':     # cut one instance from everybody
            a = self.inst(op[1]).idx
            for other in w.instances:
                if other.idx != a:
                    w.cut(a, other.idx)
            self.faults_applied += 1
        elif kind == 'heal':
            w.heal(self.inst(op[1]).idx, self.inst(op[2]).idx)
        elif kind == 'heal_all':
            w.heal_all()
        elif kind == 'exit':
            inst = self.inst(op[1])
            self._child_exit(inst, op[2], int(op[3]))
        elif kind == 'direct_start':
            inst = self.inst(op[1])
            inst.call('supervisor', 'startProcess', op[2], False)
        elif kind == 'direct_stop':
            inst = self.inst(op[1])
            inst.call('supervisor', 'stopProcess', op[2], False)
        elif kind == 'rpc':
            inst = self.inst(op[1])
            res = inst.call('supvisors', op[2], *op[3])
            w.obs('user_result', inst.idx, op[2], res[0], res[1] if len(res) > 1 and res[0] == 'fault' else None)
        elif kind == 'rpc_fuzz':
            inst = self.inst(op[1])
            res = inst.call('supvisors', op[2], *op[3])
            w.obs('user_result', inst.idx, op[2], res[0], res[1] if len(res) > 1 and res[0] == 'fault' else None)
        elif kind == 'rpc_sweep':
            # one row of the method x state matrix: every listed XML-RPC on one instance within the same second
            inst = self.inst(op[1])
            only = op[3] if len(op) > 3 else []
            if only and (not inst.alive or inst.supvisors is None or inst.supvisors.fsm.state.name not in only):
                return    # row reserved for the rare states (steering only: the oracle never reads this)
            for method, params in op[2]:
                if not inst.alive:
                    break
                res = inst.call('supvisors', method, *params)
                w.obs('user_result', inst.idx, method, res[0], res[1] if len(res) > 1 and res[0] == 'fault' else None)
        elif kind == 'make_conflict':
            # direct Supervisor starts until the k-th program known by two live instances truly runs on two of them
            hosts = {}
            for x in w.instances:
                if x.alive:
                    for name, state in x.truth().items():
                        hosts.setdefault(name, []).append((x, state))
            cands = sorted(name for name, lst in hosts.items() if len(lst) > 1)
            if cands:
                name = cands[int(op[1]) % len(cands)]
                active = sum(1 for _x, state in hosts[name] if state in (10, 20, 30))
                for x, state in hosts[name]:
                    if active < 2 and state in (0, 100, 200):
                        x.call('supervisor', 'startProcess', name, False)
                        active += 1
        elif kind == 'group_ops':
            inst = self.inst(op[1])
            inst.call('supervisor', op[2], op[3])
        elif kind == 'sup_rpc':
            inst = self.inst(op[1])
            inst.call('supervisor', op[2], *op[3])
        elif kind == 'swallow':
            inst = self.inst(op[1])
            key = f'{op[2]}:{op[3]}'
            inst.swallow[key] = inst.swallow.get(key, 0) + (int(op[4]) if len(op) > 4 else 1)
        elif kind == 'end_sync':
            inst = self.inst(op[1])
            master = '' if op[2] is None or op[2] < 0 else nick(op[2] % self.config['n'])
            inst.call('supvisors', 'end_sync', master)
        elif kind == 'drop':
            owner = self.inst(op[1])
            dest = self.ident(op[2])
            proxy = owner.proxies().get(dest)
            if proxy is not None and proxy.queue:
                from clustersim.world import _msg_kind
                etype, (src, body) = proxy.queue[0]
                if _msg_kind(etype, body) == op[3]:
                    proxy.queue.popleft()
                    w.obs('dropped', owner.idx, dest, op[3])
        elif kind == 'drop_next':
            # the next k PROCESS publications served by the proxies of this instance are lost
            idx = self.inst(op[1]).idx
            self.drop_budget[idx] = self.drop_budget.get(idx, 0) + int(op[2])
            if w.drop_filter is None:
                w.drop_filter = self._drop_filter
        elif kind == 'noop':
            pass
        else:
            raise ValueError(f'unknown op {op}')

    def _drop_filter(self, owner, proxy, message) -> bool:
        from clustersim.world import _msg_kind
        if self.in_suffix or self.drop_budget.get(owner.idx, 0) <= 0:
            return False
        etype, (src, body) = message
        if _msg_kind(etype, body) == 'PROCESS' and proxy.dest_identifier != owner.identifier:
            self.drop_budget[owner.idx] -= 1
            return True
        return False

    def _child_exit(self, inst: SimInstance, namespec: str, code: int) -> None:
        if not inst.alive:
            return
        group, _, name = namespec.partition(':')
        try:
            proc = inst.supervisord.process_groups[group].processes[name]
        except KeyError:
            return
        child = inst.options.children.get(proc.pid)
        if child is not None:
            child.die_at = self.world.now
            child.status = (code & 0xff) << 8
            self.world.obs('child_exit', inst.idx, namespec, code, proc.get_state())

    # --- main loop
    def step(self, record: dict) -> None:
        w = self.world
        # late / scheduled boots
        for idx, when in list(self.pending_boot.items()):
            if w.now + 1.0 >= when:
                del self.pending_boot[idx]
                inst = w.instances[idx]
                if not inst.alive:
                    inst.boot()
        for op in record.get('ops', []):
            self.apply_op(op)
        # hold set bounded by max_delay consecutive steps
        hold = set()
        for pair in record.get('hold', []):
            key = (self.inst(pair[0]).idx, self.ident(pair[1]))
            cnt = self.held.get(key, 0)
            if cnt < self.max_delay:
                hold.add(key)
        self.held = {key: self.held.get(key, 0) + 1 for key in hold}
        self.inject = int(record.get('inject', 0))
        order = int(record.get('order', 0))
        if order:
            rnd = random.Random(order)
            keys: Dict[tuple, float] = {}

            def order_key(owner_idx, dest):
                k = (owner_idx, dest)
                if k not in keys:
                    keys[k] = rnd.random()
                return keys[k]
            inst_order = list(range(len(w.instances)))
            rnd.shuffle(inst_order)
            w.advance(hold, order_key, inst_order)
        else:
            w.advance(hold)

    def run_prefix(self) -> None:
        self.boot_all()
        for _ in range(int(self.episode.get('warmup', 0))):
            self.step({})
        self.world.obs('warmup_end')
        for m in self.world.monitors:
            if hasattr(m, 'on_warmup_end'):
                m.on_warmup_end(self.world)
        for record in self.episode.get('steps', []):
            self.step(record)

    def run_suffix(self, ticks: Optional[int] = None, boot_dead: Optional[bool] = None, heal: bool = True,
                   user_acts: bool = True) -> None:
        """Quiet suffix: no fault, no hold, canonical order, for ``ticks`` ticks (5 s each)."""
        w = self.world
        self.in_suffix = True
        self.inject = 0
        self.held = {}
        if heal:
            w.heal_all()
        if boot_dead is None:
            boot_dead = self.episode.get('suffix_boot', False)
        if boot_dead:
            for inst in w.instances:
                if not inst.alive and inst.restart_at is None and inst.boot_error is None:
                    inst.boot()
        for inst in w.instances:
            inst.swallow.clear()
            # disturbances stop: from now on children behave (wait_exit programs exit normally, others run and die
            # promptly on SIGTERM); children already running keep their fate
            inst.behaviours = {}
        from clustersim.world import DEFAULT_BEHAVIOUR
        w.default_behaviour = DEFAULT_BEHAVIOUR
        self._default_wait_exit()
        ticks = ticks if ticks is not None else int(self.episode.get('suffix', 0))
        w.obs('suffix_start', ticks)
        user = 'USER' in str(self.config['options'].get('synchro_options', ''))
        for s in range(ticks * 5):
            for idx, when in list(self.pending_boot.items()):
                if w.now + 1.0 >= when:
                    del self.pending_boot[idx]
                    if not w.instances[idx].alive:
                        w.instances[idx].boot()
            w.advance()
            if user and user_acts and s % 10 == 9:
                self._user_end_sync()

    def _default_wait_exit(self) -> None:
        for inst in self.world.instances:
            for app in self.config.get('apps', []):
                for prog in app['programs']:
                    if prog.get('rules', {}).get('wait_exit'):
                        after = int(prog.get('sup', {}).get('startsecs', 1)) + 2
                        inst.behaviours[f'{app["name"]}:{prog["name"]}'] = [Behaviour(exit_after=after, exit_code=0)]

    def _user_end_sync(self) -> None:
        """The harness plays the user of the USER synchronisation option: end_sync on instances waiting for it."""
        for inst in self.world.instances:
            if inst.alive and inst.supvisors.fsm.state.name == 'SYNCHRONIZATION':
                res = inst.call('supvisors', 'end_sync', '')
                self.world.obs('user_end_sync', inst.idx, res[0])

    def close(self) -> None:
        self.world.close()


def suffix_ticks(config: dict) -> int:
    """K of DESIGN.md C08: generous bound derived from the configuration."""
    opts = config['options']
    timeout = int(opts.get('synchro_timeout', 15))
    inact = int(opts.get('inactivity_ticks', 2))
    seq = 0
    for app in config.get('apps', []):
        for prog in app['programs']:
            sup = prog.get('sup', {})
            retries = int(sup.get('startretries', 3))
            seq += int(sup.get('startsecs', 1)) // 5 + 3 + retries
            seq += int(sup.get('stopwaitsecs', 10)) // 5 + 3
    return timeout // 5 + 3 * (inact + 2) + seq + 12


# ---------------------------------------------------------------------------------------------------------------------
# Hypothesis strategies
class Profile:
    """Knobs of the generator (weights and restrictions making a property's non-trivial cases frequent)."""
    n_min = 2
    n_max = 4
    multi_instance_node = 0.2      # probability that two instances share a node
    sync_sets = None               # list of allowed synchro_options strings, None = any non-empty subset
    sv_failure = ('CONTINUE', 'RESYNC')
    conciliation = tuple(CONCILIATION)
    starting = ('CONFIG', 'LESS_LOADED', 'MOST_LOADED', 'LOCAL')
    auto_fence = (False, True)
    apps_max = 2
    progs_max = 3
    startsecs = (0, 1, 6)
    stopwaitsecs = (1, 7)
    steps_max = 60
    warmups = (0, 30, 45, 60)
    fault_ops = ('crash', 'restart', 'cut', 'heal', 'heal_all', 'boot')
    proc_ops = ('exit', 'direct_start', 'direct_stop')
    user_ops = ()
    op_rate = 0.25                 # probability that a step carries an operation
    ops_per_step_max = 2
    hold_rate = 0.2
    order_rate = 0.3
    inject_rate = 0.15
    late_boot = 0.2
    with_rules = True
    behaviours = True
    unkillable = False
    default_behaviours = ('run',)
    behaviours_max = 3
    behaviour_kinds = None         # None = all kinds with the same weight
    deviant_option = 0.0           # probability that one instance gets a strategy option different from the others
    rpc_rare = ()                  # XML-RPC methods drawn 6 times less often by rpc_fuzz
    behaviour_everywhere = 0.0     # probability that a behaviour script applies to the program on every instance
    sequences = (0, 1, 2)
    stop_sequences = None          # explicit stop_sequence values (None = same as sequences); 0 is legal: stopped last
    running_failure = ('CONTINUE', 'RESTART_PROCESS', 'STOP_APPLICATION', 'RESTART_APPLICATION')
    starting_failure = tuple(STARTING_FAILURE)
    distribution = ('ALL_INSTANCES',)
    known_subsets = False          # instances knowing different programs
    explicit_identifiers = 0.3
    loads = (0, 10, 40, 70)
    wait_exit = 0.15
    managed = 0.9
    autorestart = ('false',)
    startretries = (0, 1)


def _bern(p: float):
    if p <= 0:
        return st.just(False)
    if p >= 1:
        return st.just(True)
    return st.integers(0, 999).map(lambda x: x < int(p * 1000))


@st.composite
def config_st(draw, profile=Profile):
    n = draw(st.integers(profile.n_min, profile.n_max))
    nodes = []
    for i in range(n):
        if i > 0 and draw(_bern(profile.multi_instance_node)):
            nodes.append(draw(st.sampled_from(nodes)))
        else:
            nodes.append(max(nodes) + 1 if nodes else 0)
    phases = [draw(st.integers(0, 4)) for _ in range(n)]
    nhosts = max(nodes) + 1
    mono = [draw(st.sampled_from([0.0, 1000.0, 50000.0])) for _ in range(nhosts)]
    if profile.sync_sets is not None:
        sync = draw(st.sampled_from(list(profile.sync_sets)))
    else:
        subset = draw(st.lists(st.sampled_from(SYNC_OPTS), min_size=1, max_size=3, unique=True))
        sync = ','.join(sorted(subset, key=SYNC_OPTS.index))
    core = sorted(draw(st.lists(st.integers(0, n - 1), min_size=1 if 'CORE' in sync else 0, max_size=n, unique=True)))
    options = {'synchro_options': sync,
               'synchro_timeout': draw(st.sampled_from([15, 20, 30])),
               'inactivity_ticks': draw(st.integers(2, 4)),
               'auto_fence': draw(st.sampled_from(list(profile.auto_fence))),
               'core': core,
               'conciliation_strategy': draw(st.sampled_from(list(profile.conciliation))),
               'starting_strategy': draw(st.sampled_from(list(profile.starting))),
               'supvisors_failure_strategy': draw(st.sampled_from(list(profile.sv_failure)))}
    apps = []
    if profile.apps_max > 0:
        napps = draw(st.integers(1, profile.apps_max))
        for a in range(napps):
            managed = profile.with_rules and draw(_bern(profile.managed))
            app_rules = {}
            if managed:
                app_rules['start_sequence'] = draw(st.sampled_from(list(profile.sequences)))
                if draw(_bern(0.3)):
                    app_rules['stop_sequence'] = draw(st.sampled_from(list(profile.stop_sequences or profile.sequences)))
                app_rules['starting_failure_strategy'] = draw(st.sampled_from(list(profile.starting_failure)))
                app_rules['running_failure_strategy'] = draw(st.sampled_from(list(profile.running_failure)))
                dist = draw(st.sampled_from(list(profile.distribution)))
                if dist != 'ALL_INSTANCES':
                    app_rules['distribution'] = dist
                    if draw(_bern(0.5)):
                        app_rules['identifiers'] = sorted(draw(st.lists(st.integers(0, n - 1), min_size=1, max_size=n,
                                                                        unique=True)))
                if draw(_bern(0.3)):
                    app_rules['starting_strategy'] = draw(st.sampled_from(list(profile.starting)))
            progs = []
            nprogs = draw(st.integers(1, profile.progs_max))
            for p in range(nprogs):
                sup = {'startsecs': draw(st.sampled_from(list(profile.startsecs))),
                       'stopwaitsecs': draw(st.sampled_from(list(profile.stopwaitsecs))),
                       'startretries': draw(st.sampled_from(list(profile.startretries))),
                       'autorestart': draw(st.sampled_from(list(profile.autorestart)))}
                prules = {}
                if managed:
                    prules['start_sequence'] = draw(st.sampled_from(list(profile.sequences)))
                    if draw(_bern(0.3)):
                        prules['stop_sequence'] = draw(st.sampled_from(list(profile.stop_sequences or profile.sequences)))
                    prules['required'] = draw(st.booleans())
                    if draw(_bern(profile.wait_exit)):
                        prules['wait_exit'] = True
                    prules['expected_loading'] = draw(st.sampled_from(list(profile.loads)))
                    if draw(_bern(0.5)):
                        prules['running_failure_strategy'] = draw(st.sampled_from(list(profile.running_failure)))
                    if draw(_bern(0.3)):
                        prules['starting_failure_strategy'] = draw(st.sampled_from(list(profile.starting_failure)))
                    if draw(_bern(profile.explicit_identifiers)):
                        prules['identifiers'] = sorted(draw(st.lists(st.integers(0, n - 1), min_size=1, max_size=n,
                                                                     unique=True)))
                known = None
                if profile.known_subsets and draw(_bern(0.4)):
                    known = sorted(draw(st.lists(st.integers(0, n - 1), min_size=1, max_size=n, unique=True)))
                progs.append({'name': f'a{a}p{p}', 'rules': prules, 'sup': sup, 'known_by': known})
            apps.append({'name': f'app{a}', 'managed': managed, 'rules': app_rules, 'programs': progs})
    behaviours = {}
    if profile.behaviours and apps:
        nb = draw(st.integers(0, profile.behaviours_max))
        for _ in range(nb):
            i = draw(st.integers(0, n - 1))
            app = draw(st.sampled_from(apps))
            prog = draw(st.sampled_from(app['programs']))
            script = draw(st.lists(behaviour_st(profile.unkillable, profile.behaviour_kinds), min_size=1, max_size=3))
            behaviours[f'{i}|{app["name"]}:{prog["name"]}'] = script
            if profile.behaviour_everywhere and draw(_bern(profile.behaviour_everywhere)):
                # the program misbehaves wherever it is started
                for j in range(n):
                    behaviours[f'{j}|{app["name"]}:{prog["name"]}'] = script
    late = {}
    for i in range(n):
        if draw(_bern(profile.late_boot)):
            late[str(i)] = draw(st.integers(1, 40))
    out = {'n': n, 'nodes': nodes, 'phases': phases, 'mono': mono, 'options': options, 'apps': apps,
           'behaviours': behaviours, 'late': late, 'max_delay': draw(st.integers(0, 4))}
    default = draw(st.sampled_from(list(profile.default_behaviours)))
    if default != 'run':
        out['default_behaviour'] = default
    if profile.deviant_option and n > 1 and draw(_bern(profile.deviant_option)):
        # one instance is configured with a different strategy (inconsistent handshake)
        who = draw(st.integers(0, n - 1))
        key = draw(st.sampled_from(['auto_fence', 'starting_strategy', 'conciliation_strategy',
                                    'supvisors_failure_strategy']))
        domain = {'auto_fence': [True, False], 'starting_strategy': list(STARTING),
                  'conciliation_strategy': list(CONCILIATION),
                  'supvisors_failure_strategy': ['CONTINUE', 'RESYNC', 'SHUTDOWN']}[key]
        others = [v for v in domain if v != options[key]]
        out['inst_options'] = {str(who): {key: draw(st.sampled_from(others))}}
    if profile.rpc_rare:
        out['rpc_rare'] = list(profile.rpc_rare)
    if getattr(profile, 'sweep_states', None):
        out['sweep_states'] = [list(x) for x in profile.sweep_states]
    return out


@st.composite
def behaviour_st(draw, unkillable=False, kinds=None):
    kinds = list(kinds) if kinds else ['run', 'early_exit', 'exit_ok', 'exit_bad', 'spawn_error', 'slow_stop', 'ignore_term']
    if unkillable:
        kinds += ['unkillable', 'unkillable', 'very_slow_stop']
    kind = draw(st.sampled_from(kinds))
    if kind == 'unkillable':
        return Behaviour(term_delay=None, kill_delay=None).to_json()
    if kind == 'very_slow_stop':
        return Behaviour(term_delay=draw(st.sampled_from([12, 30]))).to_json()
    if kind == 'run':
        return Behaviour().to_json()
    if kind == 'early_exit':
        return Behaviour(exit_after=0, exit_code=1).to_json()
    if kind == 'exit_ok':
        return Behaviour(exit_after=draw(st.sampled_from([2, 8, 14])), exit_code=0).to_json()
    if kind == 'exit_bad':
        return Behaviour(exit_after=draw(st.sampled_from([2, 8, 14])), exit_code=1).to_json()
    if kind == 'spawn_error':
        return Behaviour(spawn_error=True).to_json()
    if kind == 'slow_stop':
        return Behaviour(term_delay=draw(st.sampled_from([1, 4]))).to_json()
    return Behaviour(term_delay=None).to_json()


def namespecs(config: dict) -> List[str]:
    return [f'{a["name"]}:{p["name"]}' for a in config.get('apps', []) for p in a['programs']]


@st.composite
def steps_st(draw, config, profile=Profile, max_steps=None):
    n = config['n']
    specs = namespecs(config)
    nsteps = draw(st.integers(0, max_steps if max_steps is not None else profile.steps_max))
    steps = []
    kinds = list(profile.fault_ops) + (list(profile.proc_ops) if specs else []) + list(profile.user_ops)
    for _ in range(nsteps):
        rec: Dict[str, Any] = {}
        if kinds and draw(_bern(profile.op_rate)):
            nops = draw(st.integers(1, profile.ops_per_step_max))
            ops = []
            for _k in range(nops):
                ops.append(draw(op_st(config, kinds, specs)))
            rec['ops'] = ops
        if n > 1 and draw(_bern(profile.hold_rate)):
            pairs = draw(st.lists(st.tuples(st.integers(0, n - 1), st.integers(0, n - 1)), min_size=1, max_size=3))
            rec['hold'] = [list(p) for p in pairs]
        if draw(_bern(profile.order_rate)):
            rec['order'] = draw(st.integers(1, 1 << 16))
        if draw(_bern(profile.inject_rate)):
            rec['inject'] = draw(st.integers(1, 4))
        steps.append(rec)
    return steps


@st.composite
def op_st(draw, config, kinds, specs):
    n = config['n']
    kind = draw(st.sampled_from(kinds))
    i = draw(st.integers(0, n - 1))
    if kind in ('crash', 'boot', 'isolate'):
        return [kind, i]
    if kind == 'restart':
        return [kind, i, draw(st.sampled_from([0, 0, 1, 3, 8, 20]))]
    if kind == 'restart_slow':
        # down long enough to be declared lost (and fenced) by the others
        return ['restart', i, draw(st.sampled_from([25, 40, 60]))]
    if kind == 'crash_master':
        return [kind, draw(st.sampled_from([0, 0, 10, 30]))]
    if kind == 'exit_running':
        return [kind, draw(st.integers(0, 11)), draw(st.sampled_from([1, 1, 0]))]
    if kind == 'crash_host':
        return [kind, draw(st.integers(0, 7))]
    if kind == 'restart_checked':
        return [kind, draw(st.integers(0, 7)), draw(st.sampled_from([0, 0, 1, 3]))]
    if kind == 'crash_target':
        return [kind, draw(st.integers(0, 7)), draw(st.sampled_from([0, 0, 1]))]
    if kind in ('cut', 'heal', 'mute'):
        j = draw(st.integers(0, n - 1))
        return [kind, i, j]
    if kind == 'heal_all':
        return [kind]
    if kind == 'exit':
        return [kind, i, draw(st.sampled_from(specs)), draw(st.sampled_from([0, 1]))]
    if kind in ('direct_start', 'direct_stop'):
        return [kind, i, draw(st.sampled_from(specs))]
    if kind == 'swallow':
        return [kind, i, draw(st.sampled_from(['start', 'stop'])), draw(st.sampled_from(specs)), draw(st.integers(1, 3))]
    if kind == 'end_sync':
        return [kind, i, draw(st.integers(-1, n - 1))]
    if kind == 'drop_next':
        return [kind, i, draw(st.integers(1, 4))]
    if kind == 'drop':
        return [kind, i, draw(st.integers(0, n - 1)), draw(st.sampled_from(['PROCESS', 'TICK', 'STATE']))]
    if kind == 'rpc':
        return draw(user_rpc_st(config, i, specs))
    if kind == 'rpc_fuzz':
        return draw(fuzz_rpc_st(config, i, specs))
    if kind == 'rpc_start':
        apps = [a['name'] for a in config.get('apps', [])] or ['nothing']
        strategy = draw(st.sampled_from(STARTING))
        method = draw(st.sampled_from(['start_application', 'start_application', 'restart_application', 'start_process',
                                       'restart_process', 'restart_sequence', 'stop_application']))
        if method in ('start_application', 'restart_application'):
            return ['rpc', i, method, [strategy, draw(st.sampled_from(apps)), False]]
        if method == 'stop_application':
            return ['rpc', i, method, [draw(st.sampled_from(apps)), False]]
        if method == 'restart_sequence':
            return ['rpc', i, method, [False]]
        return ['rpc', i, method, [strategy, draw(st.sampled_from(specs or ['x:y'])), '', False]]
    if kind == 'rpc_stop':
        apps = [a['name'] for a in config.get('apps', [])] or ['nothing']
        method = draw(st.sampled_from(['stop_application', 'stop_application', 'restart_application', 'start_application']))
        if method == 'stop_application':
            return ['rpc', i, method, [draw(st.sampled_from(apps)), False]]
        return ['rpc', i, method, [draw(st.sampled_from(STARTING)), draw(st.sampled_from(apps)), False]]
    if kind == 'rpc_app':
        apps = [a['name'] for a in config.get('apps', [])] or ['nothing']
        method = draw(st.sampled_from(['start_application', 'start_application', 'restart_application', 'restart_sequence',
                                       'stop_application']))
        if method == 'stop_application':
            return ['rpc', i, method, [draw(st.sampled_from(apps)), False]]
        if method == 'restart_sequence':
            return ['rpc', i, method, [False]]
        return ['rpc', i, method, [draw(st.sampled_from(STARTING)), draw(st.sampled_from(apps)), False]]
    if kind == 'rpc_stop_proc':
        apps = [a['name'] for a in config.get('apps', [])] or ['nothing']
        spec = draw(st.sampled_from((specs or ['x:y']) * 3 + [a + ':*' for a in apps]))
        if draw(st.booleans()):
            return ['rpc', i, 'stop_process', [spec, False]]
        return ['rpc', i, 'restart_process', [draw(st.sampled_from(STARTING)), spec, '', False]]
    if kind == 'rpc_disable':
        programs = [p['name'] for a in config.get('apps', []) for p in a['programs']] or ['nothing']
        return ['rpc', i, draw(st.sampled_from(['disable', 'disable', 'enable'])), [draw(st.sampled_from(programs)), False]]
    if kind == 'rpc_end':
        return ['rpc', i, draw(st.sampled_from(['restart', 'shutdown'])), []]
    if kind == 'rpc_sweep':
        return draw(sweep_rpc_st(config, i, specs))
    if kind == 'make_conflict':
        return [kind, draw(st.integers(0, 11))]
    if kind == 'group_ops':
        apps = [a['name'] for a in config.get('apps', [])] or ['nothing']
        return [kind, i, draw(st.sampled_from(['removeProcessGroup', 'addProcessGroup', 'stopProcessGroup'])),
                draw(st.sampled_from(apps))]
    return ['noop']


@st.composite
def user_rpc_st(draw, config, i, specs):
    apps = [a['name'] for a in config.get('apps', [])] or ['nothing']
    strategy = draw(st.sampled_from(STARTING))
    method = draw(st.sampled_from(['start_application', 'stop_application', 'restart_application', 'start_process',
                                   'stop_process', 'restart_process', 'restart_sequence', 'restart', 'shutdown',
                                   'conciliate', 'end_sync']))
    if method in ('start_application', 'restart_application'):
        return ['rpc', i, method, [strategy, draw(st.sampled_from(apps)), False]]
    if method == 'stop_application':
        return ['rpc', i, method, [draw(st.sampled_from(apps)), False]]
    if method in ('start_process', 'restart_process'):
        return ['rpc', i, method, [strategy, draw(st.sampled_from(specs or ['x:y'])), '', False]]
    if method == 'stop_process':
        return ['rpc', i, method, [draw(st.sampled_from(specs or ['x:y'])), False]]
    if method == 'restart_sequence':
        return ['rpc', i, method, [False]]
    if method == 'conciliate':
        return ['rpc', i, method, [draw(st.sampled_from(CONCILIATION))]]
    if method == 'end_sync':
        return ['rpc', i, method, ['']]
    return ['rpc', i, method, []]


RPC_SIGNATURES = {
    # method: list of parameter kinds
    'get_api_version': [], 'get_supvisors_state': [], 'get_all_instances_state_modes': [],
    'get_instance_state_modes': ['ident'], 'get_master_identifier': [], 'get_strategies': [],
    'get_statistics_status': [], 'get_network_info': ['ident'], 'get_all_instances_info': [],
    'get_instance_info': ['ident'], 'get_all_applications_info': [], 'get_application_info': ['app'],
    'get_application_rules': ['app'], 'get_all_process_info': [], 'get_process_info': ['namespec'],
    'get_all_local_process_info': [], 'get_local_process_info': ['namespec'],
    'get_all_inner_process_info': ['ident'], 'get_inner_process_info': ['ident', 'namespec'],
    'get_process_rules': ['namespec'], 'get_conflicts': [],
    'start_application': ['strategy', 'app', 'false'], 'test_start_application': ['strategy', 'app'],
    'stop_application': ['app', 'false'], 'restart_application': ['strategy', 'app', 'false'],
    'start_args': ['namespec', 'args', 'false'], 'start_process': ['strategy', 'namespec', 'args', 'false'],
    'test_start_process': ['strategy', 'namespec'], 'start_any_process': ['strategy', 'regex', 'args', 'false'],
    'stop_process': ['namespec', 'false'], 'restart_process': ['strategy', 'namespec', 'args', 'false'],
    'update_numprocs': ['program', 'int', 'false', 'bool'], 'enable': ['program', 'false'],
    'disable': ['program', 'false'], 'conciliate': ['conciliation'], 'restart_sequence': ['false'],
    'restart': [], 'shutdown': [], 'end_sync': ['ident_or_empty'], 'change_log_level': ['loglevel'],
    'enable_host_statistics': ['bool'], 'enable_process_statistics': ['bool'], 'update_collecting_period': ['float'],
}

WEIRD_STRINGS = ['', '*', ':', 'app0:', ':a0p0', 'app0:*', 'unknown', 'unknown:thing', 'app0:a0p0:x', '[', '(', 'a.*',
                 '.*', '^app0:a0p0$', 's1', 's9', 'host1:60001', 'host9:1', '10.0.0.1', '#', '@', ' ', 'é', '-1']


@st.composite
def param_st(draw, config, kind, specs):
    n = config['n']
    apps = [a['name'] for a in config.get('apps', [])] or ['nothing']
    programs = [p['name'] for a in config.get('apps', []) for p in a['programs']] or ['nothing']
    valid = draw(st.integers(0, 9)) < 6
    if kind == 'false':
        return False
    if kind == 'bool':
        return draw(st.booleans())
    if kind == 'args':
        return draw(st.sampled_from(['', '-x 1', 'a b c']))
    if kind == 'int':
        return draw(st.sampled_from([0, 1, 2, 3, -1, 100]))
    if kind == 'float':
        return draw(st.sampled_from([5.0, 0.5, 10, -1.0, 1e9]))
    if kind == 'regex':
        return draw(st.sampled_from(specs + WEIRD_STRINGS)) if specs else draw(st.sampled_from(WEIRD_STRINGS))
    if not valid:
        # invalid *values* of the documented type (the API is typed: wrong XML-RPC types are out of scope)
        if kind in ('strategy', 'conciliation'):
            return draw(st.one_of(st.sampled_from(WEIRD_STRINGS + ['config', 'USER ', 'LESS']), st.integers(-3, 12)))
        if kind == 'namespec':
            # known application with an unknown process, unknown application with a known process
            return draw(st.sampled_from(WEIRD_STRINGS + [a + ':nope' for a in apps] + ['nope:' + p for p in programs[:2]]))
        return draw(st.sampled_from(WEIRD_STRINGS))
    if kind == 'ident':
        i = draw(st.integers(0, n - 1))
        return draw(st.sampled_from([nick(i), f'host{config["nodes"][i] + 1}:{60001 + i}']))
    if kind == 'ident_or_empty':
        return draw(st.sampled_from([''] + [nick(i) for i in range(n)]))
    if kind == 'app':
        return draw(st.sampled_from(apps))
    if kind == 'namespec':
        return draw(st.sampled_from(specs + [a + ':*' for a in apps])) if specs else 'nothing:x'
    if kind == 'program':
        return draw(st.sampled_from(programs))
    if kind == 'strategy':
        return draw(st.one_of(st.sampled_from(STARTING), st.integers(0, 5)))
    if kind == 'conciliation':
        return draw(st.one_of(st.sampled_from(CONCILIATION), st.integers(0, 5)))
    if kind == 'loglevel':
        return draw(st.sampled_from(['info', 'debug', 'warn', 'error', 'critical', 'trace', 'blather', 20, 10]))
    return ''


@st.composite
def fuzz_rpc_st(draw, config, i, specs):
    method = draw(st.sampled_from(sorted(RPC_SIGNATURES)))
    if method in ('change_log_level',):
        method = 'get_api_version'
    rare = config.get('rpc_rare')
    if rare and method in rare and draw(st.integers(0, 5)) != 0:
        # methods that end the episode early (restart, shutdown) are drawn less often
        method = draw(st.sampled_from(sorted(m for m in RPC_SIGNATURES if m not in rare and m != 'change_log_level')))
    params = [draw(param_st(config, kind, specs)) for kind in RPC_SIGNATURES[method]]
    return ['rpc_fuzz', i, method, params]


SWEEP_LAST = ('conciliate', 'stop_process', 'stop_application', 'start_process', 'start_args', 'start_any_process',
              'restart_process', 'start_application', 'restart_application', 'update_numprocs', 'disable', 'enable',
              'end_sync', 'restart_sequence', 'restart', 'shutdown')
SWEEP_SKIP = ('change_log_level', 'enable_host_statistics', 'enable_process_statistics', 'update_collecting_period')


@st.composite
def sweep_rpc_st(draw, config, i, specs):
    """Every XML-RPC once with generated parameters: the methods without effect first (in a generated order), then the
    commands (a generated subset, the ones that end the episode - restart, shutdown - drawn rarely and last)."""
    first = [m for m in sorted(RPC_SIGNATURES) if m not in SWEEP_LAST and m not in SWEEP_SKIP]
    first = draw(st.permutations(first))
    last = [m for m in SWEEP_LAST if m not in ('restart', 'shutdown', 'restart_sequence')]
    mask = draw(st.integers(0, (1 << len(last)) - 1))
    if draw(st.integers(0, 3)) == 0:
        mask = (1 << len(last)) - 1
    last = [m for k, m in enumerate(last) if mask >> k & 1]
    end = draw(st.sampled_from([[], [], [], [], ['restart_sequence'], ['restart'], ['shutdown']]))
    calls = []
    for method in list(first) + last + end:
        calls.append([method, [draw(param_st(config, kind, specs)) for kind in RPC_SIGNATURES[method]]])
    only = draw(st.sampled_from(config.get('sweep_states') or [[]]))
    return ['rpc_sweep', i, calls, list(only)]


@st.composite
def episode_st(draw, profile=Profile):
    config = draw(config_st(profile))
    steps = draw(steps_st(config, profile))
    return {'config': config, 'warmup': draw(st.sampled_from(list(profile.warmups))), 'steps': steps,
            'suffix': suffix_ticks(config), 'suffix_boot': draw(st.booleans())}
