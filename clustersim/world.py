"""clustersim: N real Supvisors instances in one process on a fake OS / network / clock (engine E1 of DESIGN.md).

Nothing here modifies /repo: every seam is reached by monkey-patching module attributes from the outside.
All patches are process-global singletons bound to the *current* World (``W``), which is swapped per episode.
"""
from __future__ import annotations

import os
import shutil
import signal as _signal
import sys
import tempfile
import time as _real_time
import xmlrpc.client as xmlrpclib
from collections import deque
from typing import Any, Dict, List, Optional, Tuple

# ---------------------------------------------------------------------------------------------------------------------
# imports of the code under test (statscollector is blocked so that no collector process exists)
if 'supvisors.statscollector' not in sys.modules:
    sys.modules['supvisors.statscollector'] = None  # type: ignore

import supervisor.events as sup_events
import supervisor.process as sup_process
import supervisor.rpcinterface as sup_rpcinterface
import supervisor.supervisord as sup_supervisord
from supervisor.options import ServerOptions
from supervisor.rpcinterface import SupervisorNamespaceRPCInterface
from supervisor.states import SupervisorStates, ProcessStates, RUNNING_STATES
from supervisor.supervisord import Supervisor
from supervisor.tests.base import DummyOptions
from supervisor.xmlrpc import RPCError, SystemNamespaceRPCInterface, RootRPCInterface

import supvisors.initializer as sv_initializer
import supvisors.internal_com.mapper as sv_mapper
import supvisors.internal_com.supervisorproxy as sv_proxy
import supvisors.supervisordata as sv_supervisordata
from supvisors import plugin as sv_plugin
from supvisors.initializer import Supvisors
from supvisors.internal_com.rpchandler import RpcHandler
from supvisors.internal_com.supervisorproxy import (SupervisorProxy, SupervisorProxyThread, SupervisorProxyServer,
                                                    InternalEventHeaders)
from supvisors.rpcinterface import RPCInterface
from supvisors.statemodes import SupvisorsStateModes
from supvisors.ttypes import PublicationHeaders, RequestHeaders, NotificationHeaders

W: Optional['World'] = None   # the current world (swapped per episode)

TICK_PERIOD = 5


# ---------------------------------------------------------------------------------------------------------------------
# fake clock
class FakeTime:
    """Replacement for the ``time`` module inside the code under test. Virtual, strictly increasing."""

    def __getattr__(self, name):
        return getattr(_real_time, name)

    @staticmethod
    def _tick() -> float:
        w = W
        w.micro += 1
        return w.now + w.micro * 1e-6

    def monotonic(self) -> float:
        t = self._tick()
        cur = W.current
        return t + (cur.host.mono_offset if cur is not None else 0.0)

    def time(self) -> float:
        t = self._tick()
        cur = W.current
        return t + (cur.host.wall_offset if cur is not None else 1.7e9)

    def sleep(self, _secs) -> None:
        return None


FAKE_TIME = FakeTime()


# ---------------------------------------------------------------------------------------------------------------------
# recording logger (Supervisor Logger surface)
class RecordingLogger:
    level = 20  # INFO: the code under test skips trace formatting

    def __init__(self, inst: 'SimInstance'):
        self.inst = inst
        self.handlers: list = []
        self.records: List[Tuple[float, str, str]] = []   # (virtual time, level, message) for critical / error

    def _rec(self, lvl: str, msg: str) -> None:
        w = W
        self.records.append((w.now if w else 0.0, lvl, str(msg)))

    def critical(self, msg, **kw):
        self._rec('CRIT', msg)

    def error(self, msg, **kw):
        self._rec('ERRO', msg)

    def warn(self, msg, **kw):
        if self.inst.world.keep_warnings or 'stealth restart' in str(msg):   # (used by the C12 / C07 diagnoses)
            self._rec('WARN', msg)

    def info(self, msg, **kw):
        pass

    debug = trace = blather = info

    def log(self, level, msg, **kw):
        if level >= 50:
            self._rec('CRIT', msg)
        elif level >= 40:
            self._rec('ERRO', msg)

    def close(self):
        pass

    def getvalue(self):
        return ''

    def addHandler(self, handler):
        pass

    def reopen(self):
        pass

    def remove(self):
        pass

    def flush(self):
        pass


# ---------------------------------------------------------------------------------------------------------------------
# fake OS under real Subprocess objects
class Behaviour:
    """How a child behaves once forked. All durations in virtual seconds.

    exit_after: None = runs for ever, else exits by itself that long after the fork with exit_code.
    term_delay: None = ignores SIGTERM, else dies that long after SIGTERM.
    kill_delay: None = unkillable (stuck in D state), else dies that long after SIGKILL.
    spawn_error: fork fails (EAGAIN)."""
    __slots__ = ('exit_after', 'exit_code', 'term_delay', 'kill_delay', 'spawn_error')

    def __init__(self, exit_after=None, exit_code=0, term_delay=0, kill_delay=0, spawn_error=False):
        self.exit_after = exit_after
        self.exit_code = exit_code
        self.term_delay = term_delay
        self.kill_delay = kill_delay
        self.spawn_error = spawn_error

    @staticmethod
    def from_json(d):
        return Behaviour(**d) if d else Behaviour()

    def to_json(self):
        return {k: getattr(self, k) for k in self.__slots__}


DEFAULT_BEHAVIOUR = Behaviour()


class Child:
    __slots__ = ('pid', 'forked_at', 'behaviour', 'die_at', 'status', 'process')

    def __init__(self, pid, forked_at, behaviour):
        self.pid = pid
        self.forked_at = forked_at
        self.behaviour = behaviour
        self.die_at = None if behaviour.exit_after is None else forked_at + behaviour.exit_after
        self.status = (behaviour.exit_code & 0xff) << 8
        self.process = None


class SimOptions(DummyOptions):
    """Fake supervisord options: the simulator is the kernel."""

    def __init__(self, inst: 'SimInstance'):
        DummyOptions.__init__(self)
        self.inst = inst
        self.logger = inst.sup_logger
        self.identifier = inst.nick
        self.configfile = inst.conf_path
        self.here = os.path.dirname(inst.conf_path)
        self.environ_expansions = {}
        self.nodaemon = True
        self.silent = True
        self.mood = SupervisorStates.RUNNING
        import socket
        self.server_configs = [{'section': 'inet_http_server', 'family': socket.AF_INET, 'host': inst.host.name,
                                'port': inst.port, 'username': None, 'password': None}]
        self.httpserver = FakeHttpServer()
        self.httpservers = [(self.server_configs[0], self.httpserver)]
        self.children: Dict[int, Child] = {}
        self.dead: deque = deque()
        self.http_closed = False
        self.spawn_count: Dict[str, int] = {}
        self.fork_log: List[Tuple[float, int]] = []

    # --- kernel interface used by Subprocess
    def fork(self):
        inst = self.inst
        w = inst.world
        # who is forking? the caller frame is Subprocess.spawn(self)
        try:
            proc = sys._getframe(1).f_locals['self']
            name = f'{proc.group.config.name}:{proc.config.name}'
        except Exception:
            name = inst.spawning
        n = self.spawn_count.get(name, 0)
        self.spawn_count[name] = n + 1
        beh = inst.behaviour_for(name, n)
        if beh.spawn_error:
            import errno
            raise OSError(errno.EAGAIN, 'fork failed (generated)')
        w.next_pid += 1
        pid = w.next_pid
        self.children[pid] = Child(pid, w.now, beh)
        self.fork_log.append((w.now, pid))
        w.obs('fork', inst.idx, name, pid)
        return pid

    def kill(self, pid, sig):
        pid = abs(pid)
        child = self.children.get(pid)
        w = self.inst.world
        w.obs('kill', self.inst.idx, pid, int(sig))
        if child is None:
            import errno
            raise OSError(errno.ESRCH, 'no such process')
        beh = child.behaviour
        if sig == _signal.SIGKILL:
            delay = beh.kill_delay
        else:
            delay = beh.term_delay
        if delay is None:
            return
        t = w.now + delay
        if child.die_at is None or t < child.die_at:
            child.die_at = t
            child.status = int(sig)  # killed by signal

    def waitpid(self):
        if self.dead:
            return self.dead.popleft()
        return None, None

    def kernel_step(self) -> None:
        """Move the children whose time has come to the zombie list."""
        now = self.inst.world.now
        for pid in sorted(self.children):
            child = self.children[pid]
            if child.die_at is not None and child.die_at <= now:
                del self.children[pid]
                self.dead.append((pid, child.status))

    def kill_everything(self) -> None:
        """supervisord itself dies (crash): children are orphaned and killed by the harness (no report)."""
        self.children.clear()
        self.dead.clear()

    def close_httpservers(self):
        self.http_closed = True

    def stat(self, filename):
        return os.stat('/bin/sh')

    def check_execv_args(self, filename, argv, st):
        return None

    def get_path(self):
        return ['/bin', '/usr/bin']

    def make_pipes(self, stderr=True):
        pipes = {'child_stdin': None, 'stdin': None, 'stdout': None, 'child_stdout': None,
                 'stderr': None, 'child_stderr': None}
        return pipes

    def close_parent_pipes(self, pipes):
        pass

    def close_child_pipes(self, pipes):
        pass


class FakeSocket:
    def shutdown(self, how):
        pass


class FakeHandler:
    def __init__(self):
        self.rpcinterface = None


class FakeHttpServer:
    def __init__(self):
        self.socket = FakeSocket()
        self.handlers = [FakeHandler(), object(), object(), object(), object()]


class FakeSupervisord(Supervisor):
    def __init__(self, options):
        Supervisor.__init__(self, options)


# ---------------------------------------------------------------------------------------------------------------------
# fake hosts / DNS
class Host:
    def __init__(self, idx: int, mono_offset: float = 0.0, wall_offset: float = 1.7e9):
        self.idx = idx
        self.name = f'host{idx}'
        self.ip = f'10.0.0.{idx}'
        self.machine_int = 0x020000000000 + idx
        self.mono_offset = mono_offset
        self.wall_offset = wall_offset

    @property
    def machine_id(self) -> str:
        import re
        return ':'.join(re.findall('..', f'{self.machine_int:012x}'))


class FakeSocketModule:
    """Replacement for the ``socket`` module inside supvisors.internal_com.mapper."""
    import socket as _s
    herror = _s.herror
    gaierror = _s.gaierror
    AF_INET = _s.AF_INET
    SOCK_DGRAM = _s.SOCK_DGRAM
    inet_ntoa = staticmethod(_s.inet_ntoa)

    @staticmethod
    def _lookup(host_id: str) -> Host:
        for host in W.hosts:
            if host_id in (host.name, host.ip, f'{host.name}.sim'):
                return host
        raise FakeSocketModule.gaierror(f'unknown host {host_id}')

    @staticmethod
    def gethostbyaddr(host_id: str):
        host = FakeSocketModule._lookup(host_id)
        return host.name, [f'{host.name}.sim'], [host.ip]

    @staticmethod
    def getfqdn(name: str = '') -> str:
        if not name:
            return f'{W.current.host.name}.sim'
        try:
            return f'{FakeSocketModule._lookup(name).name}.sim'
        except Exception:
            return name

    @staticmethod
    def gethostname() -> str:
        return W.current.host.name

    @staticmethod
    def if_nameindex():
        return [(1, 'lo'), (2, 'eth0')]


class FakeUuid:
    @staticmethod
    def getnode() -> int:
        return W.current.host.machine_int


def fake_get_network_info():
    host = W.current.host
    yield sv_mapper.NicInformation('eth0', host.ip, '255.255.255.0')


# ---------------------------------------------------------------------------------------------------------------------
# event routing: supervisor.events.callbacks is global; deliver only to the listener of the current instance
def routed_notify(event) -> None:
    cur = W.current if W is not None else None
    for typ, callback in list(sup_events.callbacks):
        if isinstance(event, typ):
            owner = getattr(callback, '__self__', None)
            sv = getattr(owner, 'supvisors', None)
            if cur is None or sv is None or sv is cur.supvisors:
                callback(event)


# ---------------------------------------------------------------------------------------------------------------------
# thread-less proxies
class SimProxy(SupervisorProxy):
    """A proxy 'thread' is a FIFO queue owned by the simulator. process_event / handle_exception are the real ones."""

    process_event = SupervisorProxyThread.process_event
    handle_exception = SupervisorProxyThread.handle_exception

    def __init__(self, status, supvisors):
        SupervisorProxy.__init__(self, status, supvisors)
        self.queue: deque = deque()
        self.stopped = False
        self.closed = False
        self.owner: SimInstance = W.by_supvisors(supvisors)
        self.dest_identifier: str = status.identifier
        self.held_for = 0

    def start(self):
        self.owner.world.obs('proxy_start', self.owner.idx, self.dest_identifier)

    def push_message(self, message):
        if self.stopped:
            return
        self.queue.append(message)
        w = self.owner.world
        if w.trace_enqueue:
            etype, (src, body) = message
            w.obs('enqueue', self.owner.idx, self.dest_identifier, etype.name, _msg_kind(etype, body))
        w.on_enqueue(self.owner, self, message)

    def stop(self):
        self.stopped = True
        self.queue.clear()

    def join(self):
        if not self.closed:
            self.closed = True
            self.supvisors.rpc_handler.proxy_server.on_proxy_closing(self.dest_identifier)

    def is_alive(self):
        return not self.stopped

    def _get_proxy(self):
        return RemoteStub(self.owner, self.status.supvisors_id.host_id, self.status.supvisors_id.http_port)

    def publish(self, from_identifier, publication_message):
        # observation of the real decision (the parent's code decides): a non-TICK publication is silently skipped
        # when the receiver is not active for the sender at the time the proxy thread serves the message
        try:
            if publication_message[0] != PublicationHeaders.TICK.value and \
                    self.status.state.name in ('STOPPED', 'ISOLATED'):
                body = publication_message[1]
                what = f"{body.get('group')}:{body.get('name')}" if isinstance(body, dict) and 'group' in body else ''
                self.owner.world.obs('not_sent', self.owner.idx, self.dest_identifier,
                                     PublicationHeaders(publication_message[0]).name, what, self.status.state.name)
        except Exception:
            pass
        return SupervisorProxy.publish(self, from_identifier, publication_message)


def _msg_kind(etype, body) -> str:
    try:
        if etype == InternalEventHeaders.REQUEST:
            return RequestHeaders(body[0]).name
        if etype == InternalEventHeaders.PUBLICATION:
            return PublicationHeaders(body[0]).name
        origin, (code, _data) = body
        return NotificationHeaders(code).name
    except Exception:
        return '?'


class _Namespace:
    def __init__(self, stub: 'RemoteStub', ns: str):
        self._stub = stub
        self._ns = ns

    def __getattr__(self, method: str):
        stub, ns = self._stub, self._ns

        def call(*args):
            return stub.world.rpc(stub.src, stub.host_id, stub.port, ns, method, args)
        return call


class RemoteStub:
    """What ``getRPCInterface`` returns in production: ``stub.supervisor.x(...)`` / ``stub.supvisors.y(...)``."""

    def __init__(self, src: 'SimInstance', host_id: str, port: int):
        self.src = src
        self.world = src.world
        self.host_id = host_id
        self.port = port
        self.supervisor = _Namespace(self, 'supervisor')
        self.supvisors = _Namespace(self, 'supvisors')
        self.system = _Namespace(self, 'system')


# ---------------------------------------------------------------------------------------------------------------------
# observation wrappers installed once on classes of the code under test (pure observation, original always called)
_ORIG = {}


def _wrap_push_publication(self, publication_type, publication_body):
    w = W
    if w is not None:
        inst = w.by_supvisors(self.supvisors)
        if inst is not None:
            w.on_publication(inst, publication_type, publication_body)
    return _ORIG['push_publication'](self, publication_type, publication_body)


def _wrap_push_request(self, identifier, request_type, request_body=None):
    w = W
    if w is not None:
        inst = w.by_supvisors(self.supvisors)
        if inst is not None:
            w.on_request(inst, identifier, request_type, request_body)
    return _ORIG['push_request'](self, identifier, request_type, request_body)


def _wrap_update_instance_state(self, identifier, new_state):
    w = W
    if w is not None:
        inst = w.by_supvisors(self.supvisors)
        if inst is not None:
            w.on_instance_state(inst, identifier, new_state)
    return _ORIG['update_instance_state'](self, identifier, new_state)


_PATCHED = False


def install_patches() -> None:
    """Idempotent, process-global."""
    global _PATCHED
    if _PATCHED:
        return
    _PATCHED = True
    sv_plugin.apply_patches()
    # clock
    import supvisors
    import importlib
    import pkgutil
    for modinfo in pkgutil.walk_packages(supvisors.__path__, 'supvisors.'):
        name = modinfo.name
        if '.tests' in name or '.test.' in name or name.endswith('.test') or 'statscollector' in name \
                or '.client' in name or '.tools' in name or 'supvisorsctl' in name or 'supvisorsflask' in name \
                or '.external_com.' in name and ('zmq' in name or 'ws' in name):
            continue
        try:
            mod = importlib.import_module(name)
        except Exception:
            continue
        if getattr(mod, 'time', None) is _real_time:
            mod.time = FAKE_TIME
    for mod in (sup_process, sup_rpcinterface, sup_supervisord):
        mod.time = FAKE_TIME
    # events
    sup_events.notify = routed_notify
    sup_rpcinterface.notify = routed_notify
    sv_supervisordata.notify = routed_notify
    # identity
    sv_mapper.socket = FakeSocketModule
    sv_mapper.uuid = FakeUuid
    sv_mapper.get_network_info = fake_get_network_info
    # transport / threads
    SupervisorProxyServer.klass = SimProxy
    # logger
    sv_initializer.create_logger = lambda supervisor, logger_config: W.current.logger
    # observation
    _ORIG['push_publication'] = RpcHandler.push_publication
    RpcHandler.push_publication = _wrap_push_publication
    _ORIG['push_request'] = RpcHandler.push_request
    RpcHandler.push_request = _wrap_push_request
    _ORIG['update_instance_state'] = SupvisorsStateModes.update_instance_state
    SupvisorsStateModes.update_instance_state = _wrap_update_instance_state


# ---------------------------------------------------------------------------------------------------------------------
class SimInstance:
    """One supervisord + Supvisors plugin."""

    def __init__(self, world: 'World', idx: int, host: Host, port: int, nick: str, options: Dict[str, str],
                 programs: Dict[str, Dict[str, dict]], rules_xml: Optional[str], phase: int = 0):
        """programs: {group: {program: {startsecs, stopwaitsecs, startretries, autorestart, autostart, numprocs,
        exitcodes}}}"""
        self.world = world
        self.idx = idx
        self.host = host
        self.port = port
        self.nick = nick
        self.identifier = f'{host.name}:{port}'
        self.sv_options = dict(options)
        self.programs = programs
        self.rules_xml = rules_xml
        self.phase = phase
        self.alive = False
        self.incarnation = 0
        self.supvisors: Optional[Supvisors] = None
        self.supervisord: Optional[FakeSupervisord] = None
        self.options: Optional[SimOptions] = None
        self.logger = RecordingLogger(self)
        self.sup_logger = RecordingLogger(self)
        self.all_records: List[Tuple[float, str, str]] = []
        self.behaviours: Dict[str, List[Behaviour]] = {}
        self.spawning: str = '?'
        self.stopping = False
        self.stop_started = 0.0
        self.restart_at: Optional[float] = None
        self.wedged = False           # supervisord main loop stalled (no transition / no tick): "stuck STARTING"
        self.swallow: Dict[str, int] = {}   # 'start:<namespec>' -> count of requests silently dropped
        self.dir = os.path.join(world.scratch, f'i{idx}')
        os.makedirs(self.dir, exist_ok=True)
        self.conf_path = os.path.join(self.dir, 'supervisord.conf')
        self.rules_path = os.path.join(self.dir, 'rules.xml')
        self.supervisor_rpc: Optional[SupervisorNamespaceRPCInterface] = None
        self.supvisors_rpc: Optional[RPCInterface] = None
        self.boot_error: Optional[str] = None
        self.ticks_sent = 0

    # --- configuration files
    def write_conf(self) -> None:
        lines = ['[inet_http_server]', f'port={self.host.name}:{self.port}', '',
                 '[supervisord]', f'identifier={self.nick}', 'nodaemon=true', '',
                 '[rpcinterface:supervisor]',
                 'supervisor.rpcinterface_factory = supervisor.rpcinterface:make_main_rpcinterface', '',
                 '[rpcinterface:supvisors]',
                 'supervisor.rpcinterface_factory = supvisors.plugin:make_supvisors_rpcinterface']
        opts = dict(self.sv_options)
        if self.rules_xml is not None:
            opts['rules_files'] = self.rules_path
            with open(self.rules_path, 'w') as f:
                f.write(self.rules_xml)
        for k, v in opts.items():
            lines.append(f'{k} = {v}')
        lines.append('')
        for group, progs in self.programs.items():
            for prog, cfg in progs.items():
                lines.append(f'[program:{prog}]')
                lines.append('command=/bin/sh')
                lines.append(f'autostart={"true" if cfg.get("autostart") else "false"}')
                lines.append(f'autorestart={cfg.get("autorestart", "false")}')
                lines.append(f'startsecs={cfg.get("startsecs", 1)}')
                lines.append(f'stopwaitsecs={cfg.get("stopwaitsecs", 10)}')
                lines.append(f'startretries={cfg.get("startretries", 3)}')
                lines.append(f'exitcodes={cfg.get("exitcodes", "0")}')
                numprocs = cfg.get('numprocs', 1)
                if numprocs > 1 or cfg.get('force_numprocs'):
                    lines.append(f'numprocs={numprocs}')
                    lines.append(f'process_name=%(program_name)s_%(process_num)02d')
                lines.append('stdout_logfile=NONE')
                lines.append('stderr_logfile=NONE')
                lines.append('')
            lines.append(f'[group:{group}]')
            lines.append('programs=' + ','.join(progs))
            lines.append('')
        with open(self.conf_path, 'w') as f:
            f.write('\n'.join(lines))

    def behaviour_for(self, namespec: str, attempt: int) -> Behaviour:
        script = self.behaviours.get(namespec)
        if not script:
            return self.world.default_behaviour
        return script[min(attempt, len(script) - 1)]

    # --- life cycle
    def boot(self) -> bool:
        """Start supervisord: parse the configuration, create the process groups and the Supvisors plugin, send the
        SupervisorRunningEvent. Returns False if Supvisors refuses the configuration."""
        w = self.world
        assert not self.alive
        self.incarnation += 1
        self.logger = RecordingLogger(self)
        self.sup_logger = RecordingLogger(self)
        self.stopping = False
        self.restart_at = None
        self.wedged = False
        self.ticks_sent = 0
        self.write_conf()
        with w.as_current(self):
            self.options = SimOptions(self)
            server_options = ServerOptions()
            server_options.realize(['-c', self.conf_path, '-n'])
            self.options.process_group_configs = server_options.process_group_configs
            self.supervisord = FakeSupervisord(self.options)
            for gconfig in server_options.process_group_configs:
                gconfig.options = self.options
                for pconfig in gconfig.process_configs:
                    pconfig.options = self.options
                self.supervisord.process_groups[gconfig.name] = gconfig.make_group()
            sv_section = None
            for name, factory, d in server_options.rpcinterface_factories:
                if name == 'supvisors':
                    sv_section = d
            saved_argv = sys.argv
            sys.argv = ['supervisord', '-c', self.conf_path, '-n']
            try:
                try:
                    self.supvisors = Supvisors(self.supervisord, **sv_section)
                except ValueError as exc:
                    self.boot_error = str(exc)
                    self.supvisors = None
                    w.obs('boot_refused', self.idx, str(exc))
                    return False
            finally:
                sys.argv = saved_argv
            self.supervisord.supvisors = self.supvisors
            w.register(self)
            self.supvisors_rpc = RPCInterface(self.supvisors)
            self.supervisor_rpc = SupervisorNamespaceRPCInterface(self.supervisord)
            root = RootRPCInterface([('supervisor', self.supervisor_rpc), ('supvisors', self.supvisors_rpc)])
            root.system = SystemNamespaceRPCInterface([('supervisor', self.supervisor_rpc),
                                                       ('supvisors', self.supvisors_rpc)])
            self.options.httpserver.handlers[0].rpcinterface = root
            self.alive = True
            w.obs('boot', self.idx, self.incarnation)
            sup_events.notify(sup_events.SupervisorRunningEvent())
        return True

    def _teardown(self) -> None:
        """Common end of an incarnation (crash or orderly stop): unsubscribe, drop proxies."""
        sv = self.supvisors
        if sv is not None:
            # remove the subscriptions of this incarnation (a crashed supervisord process vanishes with them)
            sup_events.callbacks[:] = [(t, cb) for (t, cb) in sup_events.callbacks
                                       if getattr(getattr(cb, '__self__', None), 'supvisors', None) is not sv]
            if sv.rpc_handler is not None:
                for proxy in list(sv.rpc_handler.proxy_server.proxies.values()):
                    proxy.stopped = True
                    proxy.queue.clear()
        self.all_records.extend(self.logger.records)
        self.alive = False
        if self.options is not None:
            self.options.kill_everything()

    def crash(self) -> None:
        """kill -9 of supervisord and its children (or power loss)."""
        if not self.alive:
            return
        self.world.obs('crash', self.idx, self.incarnation)
        self._teardown()

    def begin_stop(self) -> None:
        """supervisord leaves RUNNING (restart / shutdown requested): SupervisorStoppingEvent then stop children."""
        w = self.world
        self.stopping = True
        self.stop_started = w.now
        w.obs('stopping', self.idx, int(self.options.mood))
        with w.as_current(self):
            sup_events.notify(sup_events.SupervisorStoppingEvent())
            for group in self.supervisord.process_groups.values():
                group.stop_all()

    def step(self) -> None:
        """One virtual second of the supervisord main loop."""
        if not self.alive:
            if self.restart_at is not None and self.world.now >= self.restart_at:
                self.restart_at = None
                self.boot()
            return
        w = self.world
        try:
            self._step_alive()
        except Exception as exc:
            from vlib.diag import exception_signature
            sig, detail = exception_signature(exc)
            if sig.endswith('@?'):
                raise
            # production: the exception escapes into the supervisord main loop (supervisord crashes)
            w.obs('proxy_exception', self.idx, sig, detail)

    def _step_alive(self) -> None:
        w = self.world
        with w.as_current(self):
            if self.options.mood < SupervisorStates.RUNNING and not self.stopping:
                self.begin_stop()
            self.options.kernel_step()
            if not self.wedged:
                self.supervisord.reap()
                for group in list(self.supervisord.process_groups.values()):
                    group.transition()
                self.supervisord.reap()
            if self.stopping:
                unstopped = [p for g in self.supervisord.process_groups.values() for p in g.get_unstopped_processes()]
                if not unstopped or w.now - self.stop_started > 30:
                    mood = self.options.mood
                    w.obs('exit', self.idx, int(mood))
                    self._teardown()
                    if mood == SupervisorStates.RESTARTING and w.auto_reboot:
                        self.restart_at = w.now + w.reboot_delay
                return
            if not self.wedged and int(w.now) % TICK_PERIOD == self.phase:
                self.ticks_sent += 1
                sup_events.notify(sup_events.Tick5Event(FAKE_TIME.time(), self.supervisord))

    # --- helpers for monitors (ground truth and views)
    def proxies(self) -> Dict[str, SimProxy]:
        if self.supvisors is None or self.supvisors.rpc_handler is None:
            return {}
        return self.supvisors.rpc_handler.proxy_server.proxies

    def truth(self) -> Dict[str, int]:
        """True process states of this Supervisor: {namespec: ProcessStates}."""
        out = {}
        if self.supervisord is None:
            return out
        for gname, group in self.supervisord.process_groups.items():
            for pname, proc in group.processes.items():
                out[f'{gname}:{pname}'] = proc.get_state()
        return out

    def call(self, ns: str, method: str, *args):
        """A user XML-RPC on this instance (marshalled like the wire). Returns ('ok', result) / ('fault', code, text)
        / ('exc', repr) when something else than RPCError escapes (C16 monitor)."""
        return self.world.user_rpc(self, ns, method, args)


class _Current:
    def __init__(self, world, inst):
        self.world = world
        self.inst = inst

    def __enter__(self):
        self.prev = self.world.current
        self.world.current = self.inst

    def __exit__(self, *exc):
        self.world.current = self.prev
        return False


class World:
    def __init__(self, scratch: Optional[str] = None):
        global W
        install_patches()
        sup_events.clear()
        W = self
        self.now = 0.0
        self.micro = 0
        self.current: Optional[SimInstance] = None
        self.hosts: List[Host] = []
        self.instances: List[SimInstance] = []
        self.partition: set = set()
        self.oneway: set = set()
        self.log: List[tuple] = []
        self.next_pid = 1000
        self._by_sv: Dict[int, SimInstance] = {}
        self.default_behaviour = DEFAULT_BEHAVIOUR
        self.trace_enqueue = False
        self.keep_warnings = False
        self.auto_reboot = True
        self.reboot_delay = 3
        self.rpc_depth = 0
        self.interleave = None       # callable(world, src, dst, method) run at RPC boundaries of check_instance
        self.monitors: list = []
        self.own_scratch = scratch is None
        self.scratch = scratch or tempfile.mkdtemp(prefix='clustersim-', dir='/dev/shm' if os.path.isdir('/dev/shm')
                                                   else None)
        self.drop_filter = None      # callable(owner, proxy, message) -> bool : message silently lost
        self.harness_errors: List[str] = []

    # --- construction
    def add_host(self, mono_offset: float = 0.0, wall_offset: float = 1.7e9) -> Host:
        host = Host(len(self.hosts) + 1, mono_offset, wall_offset)
        self.hosts.append(host)
        return host

    def add_instance(self, host: Host, port: int, nick: str, options, programs, rules_xml, phase=0) -> SimInstance:
        inst = SimInstance(self, len(self.instances), host, port, nick, options, programs, rules_xml, phase)
        self.instances.append(inst)
        return inst

    def close(self) -> None:
        global W
        for inst in self.instances:
            if inst.alive:
                inst._teardown()
        sup_events.clear()
        if self.own_scratch:
            shutil.rmtree(self.scratch, ignore_errors=True)
        if W is self:
            W = None

    # --- bookkeeping
    def as_current(self, inst: Optional[SimInstance]) -> _Current:
        return _Current(self, inst)

    def register(self, inst: SimInstance) -> None:
        self._by_sv[id(inst.supvisors)] = inst

    def by_supvisors(self, sv) -> Optional[SimInstance]:
        inst = self._by_sv.get(id(sv))
        if inst is not None and inst.supvisors is sv:
            return inst
        # during Supvisors.__init__ the object is not registered yet: it is the current one
        return self.current

    def by_address(self, host_id: str, port: int) -> Optional[SimInstance]:
        for inst in self.instances:
            if inst.port == port and host_id in (inst.host.name, inst.host.ip, f'{inst.host.name}.sim'):
                return inst
        return None

    def by_identifier(self, identifier: str) -> Optional[SimInstance]:
        for inst in self.instances:
            if inst.identifier == identifier or inst.nick == identifier:
                return inst
        return None

    def obs(self, kind: str, *data) -> None:
        self.log.append((self.now, kind) + data)

    # --- observation callbacks (fan out to monitors)
    def on_publication(self, inst, ptype, body) -> None:
        if ptype == PublicationHeaders.STATE:
            self.obs('pub_state', inst.idx, inst.incarnation, body['fsm_statename'], body['master_identifier'],
                     body['starting_jobs'], body['stopping_jobs'])
        elif ptype == PublicationHeaders.PROCESS:
            self.obs('pub_process', inst.idx, f"{body['group']}:{body['name']}", int(body['state']),
                     body.get('identifier'), bool(body.get('forced', False)), body.get('spawnerr', ''))
        for m in self.monitors:
            m.on_publication(inst, ptype, body)

    def on_request(self, inst, identifier, rtype, body) -> None:
        self.obs('request', inst.idx, identifier, rtype.name, body)
        for m in self.monitors:
            m.on_request(inst, identifier, rtype, body)

    def on_instance_state(self, inst, identifier, new_state) -> None:
        self.obs('inst_state', inst.idx, inst.incarnation, identifier, new_state.name)
        for m in self.monitors:
            m.on_instance_state(inst, identifier, new_state)

    def on_enqueue(self, owner, proxy, message) -> None:
        for m in self.monitors:
            m.on_enqueue(owner, proxy, message)

    # --- network
    def cut(self, a: int, b: int) -> None:
        self.partition.add(frozenset((a, b)))
        self.obs('cut', a, b)

    def heal(self, a: int, b: int) -> None:
        self.partition.discard(frozenset((a, b)))
        self.oneway.discard((a, b))
        self.oneway.discard((b, a))
        self.obs('heal', a, b)

    def heal_all(self) -> None:
        self.partition.clear()
        self.oneway.clear()
        self.obs('heal_all')

    def reachable(self, a: SimInstance, b: SimInstance) -> bool:
        """Can a call from ``a`` reach ``b``? (one-way losses are directional)"""
        return a is b or (frozenset((a.idx, b.idx)) not in self.partition and (a.idx, b.idx) not in self.oneway)

    def cut_oneway(self, a: int, b: int) -> None:
        self.oneway.add((a, b))
        self.obs('cut_oneway', a, b)

    def rpc(self, src: SimInstance, host_id: str, port: int, ns: str, method: str, args: tuple):
        """An XML-RPC from a proxy of ``src``. Transport failures are OSError, remote RPCError becomes Fault."""
        dst = self.by_address(host_id, port)
        name = f'{ns}.{method}'
        if (dst is None or not dst.alive or dst.options.http_closed or not self.reachable(src, dst)
                or (dst.wedged and dst is not src)):
            self.obs('rpc_fail', src.idx, dst.idx if dst else -1, name)
            for m in self.monitors:
                m.on_rpc(src, dst, name, args, 'oserror', None)
            raise ConnectionRefusedError(111, f'Connection refused (sim) {host_id}:{port}')
        if self.interleave is not None and self.rpc_depth == 0 and ns == 'supvisors' and src is not dst:
            self.rpc_depth += 1
            try:
                self.interleave(self, src, dst, method)
            finally:
                self.rpc_depth -= 1
            if not dst.alive or dst.options.http_closed or not self.reachable(src, dst):
                self.obs('rpc_fail', src.idx, dst.idx, name)
                raise ConnectionRefusedError(111, f'Connection refused (sim) {host_id}:{port}')
        # marshalling round trip of the arguments
        wire_args = xmlrpclib.loads(xmlrpclib.dumps(tuple(args), allow_none=True))[0]
        # swallowed requests: the remote end never acts (event never produced)
        if name in ('supvisors.start_args', 'supervisor.stopProcess'):
            key = ('start:' if name == 'supvisors.start_args' else 'stop:') + str(wire_args[0])
            if dst.swallow.get(key, 0) > 0:
                dst.swallow[key] -= 1
                self.obs('swallowed', src.idx, dst.idx, name, wire_args[0])
                for m in self.monitors:
                    m.on_rpc(src, dst, name, wire_args, 'swallowed', None)
                return True
        iface = dst.supervisor_rpc if ns == 'supervisor' else dst.supvisors_rpc
        for m in self.monitors:
            getattr(m, 'on_rpc_begin', _noop)(src, dst, name, wire_args)
        with self.as_current(dst):
            try:
                if name == 'supvisors.start_args':
                    dst.spawning = wire_args[0]
                result = getattr(iface, method)(*wire_args)
            except RPCError as exc:
                self.obs('rpc_fault', src.idx, dst.idx, name, wire_args, exc.code)
                for m in self.monitors:
                    m.on_rpc(src, dst, name, wire_args, 'fault', exc)
                raise xmlrpclib.Fault(exc.code, exc.text)
            except Exception as exc:
                # production: the XML-RPC handler of supervisor answers with an HTTP 500 / Fault(1) and logs the traceback
                import traceback
                tb = traceback.format_exc()
                self.obs('rpc_internal_error', src.idx, dst.idx, name, wire_args, repr(exc), tb)
                for m in self.monitors:
                    m.on_rpc(src, dst, name, wire_args, 'internal', exc)
                raise xmlrpclib.Fault(1, f'UNKNOWN_METHOD / internal error: {exc!r}')
        if callable(result):
            result = True  # deferred answers are not followed for internal calls (all use wait=False)
        wire_result = xmlrpclib.loads(xmlrpclib.dumps((result,), methodresponse=True, allow_none=True))[0][0]
        if name != 'supervisor.sendRemoteCommEvent':
            self.obs('rpc', src.idx, dst.idx, name, wire_args)
        for m in self.monitors:
            m.on_rpc(src, dst, name, wire_args, 'ok', wire_result)
        return wire_result

    def user_rpc(self, inst: SimInstance, ns: str, method: str, args: tuple):
        """An XML-RPC issued by the (generated) user on ``inst``."""
        for m in self.monitors:
            getattr(m, 'on_user_rpc_begin', _noop)(inst, f'{ns}.{method}', args)
        out = self._user_rpc(inst, ns, method, args)
        for m in self.monitors:
            getattr(m, 'on_user_rpc', _noop)(inst, f'{ns}.{method}', args, out)
        return out

    def _user_rpc(self, inst: SimInstance, ns: str, method: str, args: tuple):
        name = f'{ns}.{method}'
        if not inst.alive or inst.options.http_closed:
            return ('down',)
        try:
            wire_args = xmlrpclib.loads(xmlrpclib.dumps(tuple(args), allow_none=True))[0]
        except Exception as exc:
            return ('unmarshallable', repr(exc))
        iface = inst.supervisor_rpc if ns == 'supervisor' else inst.supvisors_rpc
        self.obs('user_rpc', inst.idx, name, wire_args)
        with self.as_current(inst):
            try:
                fn = getattr(iface, method)
                if ns == 'supervisor' and method == 'startProcess':
                    inst.spawning = wire_args[0]
                result = fn(*wire_args)
            except RPCError as exc:
                self.obs('user_fault', inst.idx, name, exc.code)
                return ('fault', exc.code, exc.text)
            except Exception as exc:
                import traceback
                tb = traceback.format_exc()
                self.obs('user_internal_error', inst.idx, name, wire_args, repr(exc), tb)
                for m in self.monitors:
                    m.on_user_internal_error(inst, name, wire_args, exc, tb)
                return ('exc', repr(exc), tb)
        if callable(result):
            return ('deferred', result)
        try:
            wire_result = xmlrpclib.loads(xmlrpclib.dumps((result,), methodresponse=True, allow_none=True))[0][0]
        except Exception as exc:
            self.obs('user_unmarshallable_result', inst.idx, name, repr(exc))
            for m in self.monitors:
                m.on_user_internal_error(inst, name, wire_args, exc, 'result not marshallable')
            return ('exc', repr(exc), 'result not marshallable')
        return ('ok', wire_result)

    # --- scheduling
    def pending(self) -> List[Tuple[SimInstance, str, SimProxy]]:
        out = []
        for inst in self.instances:
            if not inst.alive:
                continue
            for ident, proxy in list(inst.proxies().items()):
                if proxy.queue and not proxy.stopped:
                    out.append((inst, ident, proxy))
        return out

    def serve(self, inst: SimInstance, proxy: SimProxy) -> None:
        """The proxy thread (inst -> proxy.dest) processes the message at the head of its queue."""
        if not proxy.queue or proxy.stopped or not inst.alive:
            return
        message = proxy.queue.popleft()
        if self.drop_filter is not None and self.drop_filter(inst, proxy, message):
            self.obs('dropped', inst.idx, proxy.dest_identifier, _msg_kind(message[0], message[1][1]))
            return
        with self.as_current(inst):
            try:
                proxy.process_event(message)
            except Exception as exc:
                # production: the proxy thread dies with an uncaught exception (C16)
                from vlib.diag import exception_signature
                sig, detail = exception_signature(exc)
                if sig.endswith('@?'):
                    raise
                self.obs('proxy_exception', inst.idx, sig, detail)

    def deliver_all(self, hold=(), order_key=None, limit: int = 5000) -> int:
        """Serve every queue not in ``hold`` until they are empty. ``order_key`` maps (owner idx, dest identifier)
        to a sort key (service order among ready queues); default is canonical (owner, dest)."""
        count = 0
        while count < limit:
            ready = [(inst, ident, proxy) for inst, ident, proxy in self.pending()
                     if (inst.idx, ident) not in hold]
            if not ready:
                break
            if order_key is not None:
                ready.sort(key=lambda x: order_key(x[0].idx, x[1]))
            else:
                ready.sort(key=lambda x: (x[0].idx, x[1]))
            inst, ident, proxy = ready[0]
            self.serve(inst, proxy)
            count += 1
        if count >= limit:
            self.harness_errors.append(f'deliver_all: livelock suspected at t={self.now} (>{limit} deliveries)')
        return count

    def advance(self, hold=(), order_key=None, inst_order: Optional[List[int]] = None) -> None:
        """One virtual second: every supervisord runs one main-loop turn, then queues are served."""
        self.now += 1.0
        self.micro = 0
        order = inst_order if inst_order is not None else range(len(self.instances))
        for i in order:
            self.instances[i].step()
            for m in self.monitors:
                m.after_instance_step(self.instances[i])
        self.deliver_all(hold, order_key)
        for m in self.monitors:
            m.after_step(self)

    def run(self, seconds: int) -> None:
        for _ in range(seconds):
            self.advance()


def _noop(*args, **kwargs):
    return None


class Monitor:
    """Base class: observation callbacks are no-ops."""

    def on_publication(self, inst, ptype, body): pass
    def on_request(self, inst, identifier, rtype, body): pass
    def on_instance_state(self, inst, identifier, new_state): pass
    def on_enqueue(self, owner, proxy, message): pass
    def on_rpc(self, src, dst, name, args, outcome, result): pass
    def on_user_internal_error(self, inst, name, args, exc, tb): pass
    def on_user_rpc(self, inst, name, args, outcome): pass
    def on_user_rpc_begin(self, inst, name, args): pass
    def on_rpc_begin(self, src, dst, name, args): pass
    def after_instance_step(self, inst): pass
    def after_step(self, world): pass
