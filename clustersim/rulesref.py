"""Harness-side resolution of the generated (abstract) rules of an episode configuration: never read from the code
under test. Generated configurations only use exact names, so lookup is trivial."""
from __future__ import annotations

from typing import Dict, List, Optional


class RulesRef:
    def __init__(self, config: dict):
        self.config = config
        self.n = config['n']
        self.apps: Dict[str, dict] = {}
        self.progs: Dict[str, dict] = {}
        for app in config.get('apps', []):
            managed = bool(app.get('managed', True))
            ar = app.get('rules', {}) if managed else {}
            a = {'name': app['name'], 'managed': managed,
                 'start_sequence': int(ar.get('start_sequence', 0)),
                 'stop_sequence': int(ar.get('stop_sequence', ar.get('start_sequence', 0))),
                 'starting_failure_strategy': ar.get('starting_failure_strategy', 'ABORT'),
                 'running_failure_strategy': ar.get('running_failure_strategy', 'CONTINUE'),
                 'distribution': ar.get('distribution', 'ALL_INSTANCES'),
                 'identifiers': ar.get('identifiers'),          # list of instance indexes or None (= all)
                 'programs': []}
            self.apps[app['name']] = a
            for prog in app['programs']:
                pr = prog.get('rules', {}) if managed else {}
                seq = int(pr.get('start_sequence', 0))
                required = bool(pr.get('required', False)) and seq > 0
                p = {'namespec': f"{app['name']}:{prog['name']}", 'app': app['name'], 'name': prog['name'],
                     'start_sequence': seq,
                     'stop_sequence': int(pr.get('stop_sequence', seq)),
                     'required': required, 'wait_exit': bool(pr.get('wait_exit', False)),
                     'load': int(pr.get('expected_loading', 0)),
                     'starting_failure_strategy': pr.get('starting_failure_strategy', a['starting_failure_strategy']),
                     'running_failure_strategy': pr.get('running_failure_strategy', a['running_failure_strategy']),
                     'identifiers': pr.get('identifiers'),
                     'known_by': prog.get('known_by'),
                     'startsecs': int(prog.get('sup', {}).get('startsecs', 1)),
                     'stopwaitsecs': int(prog.get('sup', {}).get('stopwaitsecs', 10)),
                     'startretries': int(prog.get('sup', {}).get('startretries', 3))}
                self.progs[p['namespec']] = p
                a['programs'].append(p)

    def load(self, namespec: str) -> int:
        p = self.progs.get(namespec)
        return p['load'] if p else 0

    def allowed_instances(self, namespec: str) -> Optional[List[int]]:
        """Instance indexes permitted by the applicable identifiers rule (None = all)."""
        p = self.progs[namespec]
        a = self.apps[p['app']]
        if a['distribution'] != 'ALL_INSTANCES':
            return a['identifiers']
        return p['identifiers']

    def knows(self, idx: int, namespec: str) -> bool:
        known = self.progs[namespec]['known_by']
        return known is None or idx in known
