"""Per-property monitors: they watch a run from the outside and emit (signature, detail) pairs."""
from __future__ import annotations

import re
from typing import Dict, List, Optional, Set, Tuple

from clustersim.world import Monitor, World, SimInstance
from vlib.diag import traceback_signature, exception_signature

WORKING = {'DISTRIBUTION', 'OPERATION', 'CONCILIATION'}
ENDING = {'RESTARTING', 'SHUTTING_DOWN'}


def all_records(inst: SimInstance):
    return list(inst.all_records) + (list(inst.logger.records) if inst.alive or inst.logger.records and
                                     inst.logger.records[-1:] != inst.all_records[-1:] else [])


def instance_records(inst: SimInstance):
    """All critical / error records of every incarnation of the instance."""
    recs = list(inst.all_records)
    if inst.alive:
        recs += list(inst.logger.records)
    return recs


# ---------------------------------------------------------------------------------------------------------------------
class InternalErrorMonitor(Monitor):
    """C16: no critical traceback, no non-RPCError out of an XML-RPC, no exception out of a proxy thread."""

    def __init__(self):
        self.findings: List[Tuple[str, str]] = []

    def on_user_internal_error(self, inst, name, args, exc, tb):
        if isinstance(exc, BaseException):
            sig, detail = exception_signature(exc)
        else:
            sig, detail = f'internal:?@{name}', str(tb)
        self.findings.append((sig, f'user XML-RPC {name}{tuple(args)} raised {detail}'))

    def finish(self, world: World) -> List[Tuple[str, str]]:
        out = list(self.findings)
        for rec in world.log:
            if rec[1] == 'rpc_internal_error':
                _, _, src, dst, name, args, rexc, tb = rec
                out.append((traceback_signature(tb),
                            f'XML-RPC {name}{tuple(args)} from instance {src} to {dst} raised {rexc}'))
            elif rec[1] == 'proxy_exception':
                out.append((rec[3], f'proxy thread {rec[2]} died: {rec[4]}'))
        for inst in world.instances:
            for t, lvl, msg in instance_records(inst):
                if lvl == 'CRIT' and 'Traceback' in msg:
                    where = msg.split(':', 1)[0].strip()
                    out.append((traceback_signature(msg),
                                f't={t} instance {inst.nick}: {msg.strip().splitlines()[-1]} (guard {where})'))
        return out


# ---------------------------------------------------------------------------------------------------------------------
# Golden copy of the documented Supvisors state graph (DESIGN.md 8.2): the transition table of the pinned commit plus
# the documented returns to OFF / SYNCHRONIZATION / ELECTION from every state after SYNCHRONIZATION.
GOLDEN_EDGES: Dict[str, Set[str]] = {
    'OFF': {'SYNCHRONIZATION'},
    'SYNCHRONIZATION': {'OFF', 'ELECTION'},
    'ELECTION': {'OFF', 'SYNCHRONIZATION', 'DISTRIBUTION', 'SHUTTING_DOWN'},
    'DISTRIBUTION': {'OFF', 'SYNCHRONIZATION', 'ELECTION', 'OPERATION', 'RESTARTING', 'SHUTTING_DOWN'},
    'OPERATION': {'OFF', 'SYNCHRONIZATION', 'ELECTION', 'CONCILIATION', 'RESTARTING', 'SHUTTING_DOWN'},
    'CONCILIATION': {'OFF', 'SYNCHRONIZATION', 'ELECTION', 'OPERATION', 'RESTARTING', 'SHUTTING_DOWN'},
    'RESTARTING': {'FINAL'},
    'SHUTTING_DOWN': {'FINAL'},
    'FINAL': set(),
}
NEEDS_MASTER = {'DISTRIBUTION', 'OPERATION', 'CONCILIATION', 'RESTARTING', 'SHUTTING_DOWN'}


class StateGraphMonitor(Monitor):
    """C02: published Supvisors state sequence per incarnation follows the golden graph; working / ending states are
    entered with a known RUNNING Master; a non-Master enters them only after its Master has."""

    def __init__(self):
        self.seq: Dict[Tuple[int, int], List[str]] = {}
        self.findings: List[Tuple[str, str]] = []
        self.entered: Dict[Tuple[str, str], float] = {}   # (identifier, state) -> first time the instance published it
        self.edges_seen: Set[Tuple[str, str]] = set()

    def on_publication(self, inst, ptype, body):
        from supvisors.ttypes import PublicationHeaders
        if ptype != PublicationHeaders.STATE:
            return
        key = (inst.idx, inst.incarnation)
        state = body['fsm_statename']
        seq = self.seq.setdefault(key, [])
        w = inst.world
        if not seq:
            seq.append(state)
            if state != 'OFF':
                self.findings.append((f'graph:first-state-{state}', f'instance {inst.nick} first published {state}'))
            return
        prev = seq[-1]
        if state == prev:
            return
        seq.append(state)
        self.edges_seen.add((prev, state))
        self.entered.setdefault((inst.identifier, state), w.now)
        if state not in GOLDEN_EDGES.get(prev, set()):
            self.findings.append((f'graph:{prev}->{state}', f't={w.now} instance {inst.nick} moved {prev} -> {state}'))
        if state in NEEDS_MASTER:
            master = body['master_identifier']
            sv = inst.supvisors
            if not master:
                self.findings.append((f'enter-without-master:{state}', f't={w.now} {inst.nick} entered {state} from {prev}'
                                      f' with no Master'))
            else:
                seen = sv.context.instances[master].state.name if master in sv.context.instances else '?'
                if seen != 'RUNNING':
                    self.findings.append((f'enter-master-not-running:{state}',
                                          f't={w.now} {inst.nick} entered {state} with Master {master} seen {seen}'))
                if master != inst.identifier and (master, state) not in self.entered:
                    self.findings.append((f'slave-before-master:{state}',
                                          f't={w.now} {inst.nick} entered {state} from {prev} but its Master {master} '
                                          f'never published {state}'))

    def finish(self, world: World):
        return list(self.findings)


# ---------------------------------------------------------------------------------------------------------------------
def live_view(inst: SimInstance) -> dict:
    """What the instance answers on its status XML-RPCs (through the RPC interface object, state gate free ones)."""
    rpc = inst.supvisors_rpc
    w = inst.world
    with w.as_current(inst):
        state = rpc.get_supvisors_state()
        instances = {x['identifier']: x['statename'] for x in rpc.get_all_instances_info()}
    return {'state': state['fsm_statename'], 'master': state['master_identifier'],
            'starting_jobs': list(state['starting_jobs']), 'stopping_jobs': list(state['stopping_jobs']),
            'instances': instances, 'degraded': state['degraded_mode']}


def components(world: World) -> List[List[SimInstance]]:
    """R-components: live instances, mutually reachable, neither reporting the other ISOLATED."""
    live = [i for i in world.instances if i.alive and not i.stopping]
    views = {i.idx: live_view(i) for i in live}
    adj = {i.idx: set() for i in live}
    for a in live:
        for b in live:
            if a.idx < b.idx and world.reachable(a, b) and world.reachable(b, a):
                if views[a.idx]['instances'].get(b.identifier) != 'ISOLATED' and \
                        views[b.idx]['instances'].get(a.identifier) != 'ISOLATED':
                    adj[a.idx].add(b.idx)
                    adj[b.idx].add(a.idx)
    seen, comps = set(), []
    for i in live:
        if i.idx in seen:
            continue
        stack, comp = [i.idx], []
        while stack:
            x = stack.pop()
            if x in seen:
                continue
            seen.add(x)
            comp.append(x)
            stack.extend(adj[x] - seen)
        members = sorted(comp)
        clique = all(b in adj[a] for a in members for b in members if a != b)
        comps.append(([world.instances[k] for k in members], clique))
    return comps


def sync_satisfiable(config: dict, comp: List[SimInstance], world: World) -> bool:
    """DESIGN 8.1: can the configured synchronisation condition be met by this component?"""
    sync = str(config['options']['synchro_options']).split(',')
    members = {i.idx for i in comp}
    n = config['n']
    if 'TIMEOUT' in sync or 'USER' in sync:
        return True
    ok = False
    if 'LIST' in sync or 'STRICT' in sync:
        ok = ok or members == set(range(n))
    if 'CORE' in sync and config['options'].get('core'):
        ok = ok or set(config['options']['core']) <= members
    return ok


class ConvergenceMonitor(Monitor):
    """C01 (b) + C08 at the end of the quiet suffix."""

    def __init__(self, config: dict, check_operation: bool = True):
        self.config = config
        self.check_operation = check_operation
        self.excluded = 0
        self.excluded_nonclique = 0
        self.components_checked = 0

    def finish(self, world: World) -> List[Tuple[str, str]]:
        out = []
        for comp, clique in components(world):
            # the statement speaks of instances that have not isolated one another: when isolation is not symmetric /
            # transitive inside a component (A fenced B, C sees both) no such group exists - excluded and counted
            if not clique:
                self.excluded_nonclique += 1
                continue
            if not sync_satisfiable(self.config, comp, world):
                self.excluded += 1
                continue
            self.components_checked += 1
            views = {i.idx: live_view(i) for i in comp}
            masters = {v['master'] for v in views.values()}
            states = {i.nick: views[i.idx]['state'] for i in comp}
            names = {i.identifier for i in comp}
            if any(v['state'] in ('FINAL', 'RESTARTING', 'SHUTTING_DOWN') for v in views.values()):
                self.excluded += 1
                continue
            detail = f'states={states} masters={sorted(masters)}'
            if len(masters) != 1 or '' in masters:
                kinds = '/'.join(sorted(set(states.values())))
                out.append((f'no-single-master:{kinds}', detail))
                continue
            master = next(iter(masters))
            if master not in names:
                out.append(('master-outside-component', detail))
                continue
            minst = world.by_identifier(master)
            for i in comp:
                if views[i.idx]['instances'].get(master) != 'RUNNING':
                    out.append(('master-not-seen-running', f'{i.nick} sees Master {master} '
                                f'{views[i.idx]["instances"].get(master)}; {detail}'))
                    break
            if views[minst.idx]['master'] != master:
                out.append(('master-does-not-know', detail))
            if not self.check_operation:
                continue
            mstate = views[minst.idx]['state']
            parked = {i.nick: views[i.idx]['state'] for i in comp if views[i.idx]['state'] != mstate}
            conflicts = False
            if mstate in ('OPERATION', 'CONCILIATION'):
                with world.as_current(minst):
                    conflicts = bool(minst.supvisors.context.conflicts())
            user_conc = self.config['options'].get('conciliation_strategy') == 'USER'
            if mstate not in ('OPERATION', 'CONCILIATION') or (mstate == 'CONCILIATION' and not (conflicts and user_conc)):
                out.append((f'parked:master-in-{mstate}', diagnose_parked(world, comp, views) + '; ' + detail))
            elif parked:
                kinds = '/'.join(sorted(set(parked.values())))
                out.append((f'parked:slave-in-{kinds}:master-in-{mstate}', diagnose_parked(world, comp, views) + '; ' + detail))
            jobs = {i.nick: (views[i.idx]['starting_jobs'], views[i.idx]['stopping_jobs']) for i in comp
                    if views[i.idx]['starting_jobs'] or views[i.idx]['stopping_jobs']}
            if jobs:
                out.append(('jobs-pending', f'{jobs}; {detail}'))
        return out


def diagnose_parked(world: World, comp, views) -> str:
    refused = []
    for i in comp:
        for t, lvl, msg in instance_records(i)[-50:]:
            if 'unexpected transition' in msg:
                refused.append(f'{i.nick}:{msg.split("unexpected transition ")[1].strip()}')
    last = sorted(set(refused))[-3:]
    return f'refused={last}' if last else 'no refused transition'


# ---------------------------------------------------------------------------------------------------------------------
class RestartTracker(Monitor):
    """Diagnosis helper: records the incarnation of a peer at each completed handshake (observer marks it CHECKED), so
    that a view still based on a previous incarnation of a live peer ("undetected restart") can be recognised."""

    def __init__(self):
        self.checked: Dict[Tuple[int, str], int] = {}
        self.incarnations: Dict[int, int] = {}
        self.view_at_restart: Dict[Tuple[int, str, int], str] = {}   # (observer idx, peer identifier, new incarnation)

    def on_instance_state(self, inst, identifier, new_state):
        if new_state.name == 'CHECKED':
            peer = inst.world.by_identifier(identifier)
            if peer is not None:
                self.checked[(inst.idx, identifier)] = peer.incarnation

    def after_step(self, world):
        # what every observer held about a peer when that peer came back with a new incarnation
        for peer in world.instances:
            prev = self.incarnations.get(peer.idx)
            if prev is not None and peer.incarnation != prev and peer.alive:
                for obs in world.instances:
                    if obs is not peer and obs.alive and obs.supvisors is not None:
                        status = obs.supvisors.context.instances.get(peer.identifier)
                        if status is not None:
                            counter = getattr(getattr(status, 'times', None), 'remote_sequence_counter', 0)
                            self.view_at_restart[(obs.idx, peer.identifier, peer.incarnation)] = \
                                f'{status.state.name}:{int(counter or 0)}:{world.now}'
            if peer.alive:
                self.incarnations[peer.idx] = peer.incarnation

    def restart_context(self, world: World, observer_nick: str, peer_nick: str) -> str:
        """"<state>:<stored TICK counter>" held by the observer about the peer when the peer restarted ('' if unknown)."""
        obs = next((i for i in world.instances if i.nick == observer_nick), None)
        peer = next((i for i in world.instances if i.nick == peer_nick), None)
        if obs is None or peer is None:
            return ''
        return self.view_at_restart.get((obs.idx, peer.identifier, peer.incarnation), '')

    def undetected(self, world: World) -> List[Tuple[str, str]]:
        """(observer nick, peer nick) pairs where the observer treats as RUNNING / CHECKED a peer it last handshook
        with in a previous incarnation."""
        out = []
        for inst in world.instances:
            if not inst.alive or inst.supvisors is None:
                continue
            for ident, status in inst.supvisors.context.instances.items():
                if status.state.name in ('RUNNING', 'CHECKED') and ident != inst.identifier:
                    peer = world.by_identifier(ident)
                    rec = self.checked.get((inst.idx, ident))
                    if peer is not None and peer.alive and rec is not None and rec != peer.incarnation:
                        out.append((inst.nick, peer.nick))
        return out
