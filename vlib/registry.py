"""Single source of truth for MANIFEST.json (tools/gen_manifest.py writes it from here)."""

GUARD = 'SUPVISORS_VERIF'

CHECKS = {
    'C11': {
        'engine': 'E3-solo',
        'category': 'exploration',
        'text': ('Model-based stateful search: generated histories of snapshots, process events (any state/order), '
                 'forced states, instance losses, removals and additions from 1-4 puppet peers are fed to a real '
                 'Supvisors instance; get_process_info / get_conflicts are compared with a reference model of the '
                 'statement after every step. Held on everything explored within the stated bounds; no absence claim.'),
        'design_ref': 'DESIGN.md 5/C11',
        'note': ('Trusted: the reference model (about 60 lines, written from the statement), the puppet payload shapes '
                 '(copied from the real listener / RPC payloads), Hypothesis. Bounds: <= 4 peers, 2 processes, <= 40 '
                 'operations per history.'),
        'technique': 'Hypothesis rule-based state machine vs reference model (model-based testing)',
    },
}

HOOK_COMMITS = []

ENGINES = [
    {'name': 'E1-clustersim', 'path': 'clustersim/', 'kind_free_text':
        'deterministic cluster simulator: N real Supvisors instances in one process on a fake OS / network / clock; '
        'Hypothesis generates configuration and history; per-property monitors',
     'serves_properties': []},
    {'name': 'E3-solo', 'path': 'clustersim/solo.py', 'kind_free_text':
        'one real instance with puppet peers / pure component harnesses driven by Hypothesis',
     'serves_properties': ['C11']},
]

_PENDING = 'check not built yet in this round (the technique applies; see DESIGN.md section 5)'
NOT_APPLICABLE = {pid: _PENDING for pid in
                  ['C01', 'C02', 'C03', 'C04', 'C05', 'C06', 'C07', 'C08', 'C09', 'C10', 'C12', 'C13', 'C14', 'C15',
                   'C16', 'C17', 'C18', 'C19', 'C20']}
