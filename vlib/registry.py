"""Single source of truth for MANIFEST.json (tools/gen_manifest.py writes it from here)."""

GUARD = 'SUPVISORS_VERIF'

CHECKS = {
    'C11': {
        'engine': 'E3-solo',
        'category': 'exploration',
        'text': ('Model-based stateful search: generated histories of snapshots, process events (any state/order), '
                 'forced states, instance losses, removals and additions from 1-4 puppet peers are fed to a real '
                 'Supvisors instance; get_process_info / get_conflicts are compared with a reference model of the '
                 'statement after every step. Held on everything explored within the stated bounds; no absence claim.'),
        'design_ref': 'DESIGN.md 5/C11',
        'note': ('Trusted: the reference model (about 60 lines, written from the statement), the puppet payload shapes '
                 '(copied from the real listener / RPC payloads), Hypothesis. Bounds: <= 4 peers, 2 processes, <= 40 '
                 'operations per history.'),
        'technique': 'Hypothesis rule-based state machine vs reference model (model-based testing)',
    },
}

CLUSTER_NOTE = ('Trusted: the simulator (fake OS / network / clock under real Supvisors and real supervisor.process '
                'objects; handlers atomic, proxy threads = FIFO queues, XML-RPC = direct call with marshalling), the '
                'monitors, Hypothesis. Bounds: <= 4-5 instances, <= 3 nodes, <= 2 applications x 3 programs, prefix '
                '<= 60 s after a warm-up <= 60 s, delays <= 4 s, quiet suffix of K ticks. Out of the simulator: discovery '
                'mode, statistics collector, external publishers, web UI, real sockets / thread pre-emption.')

CHECKS['C16'] = {
    'engine': 'E1-clustersim',
    'category': 'exploration',
    'text': ('Generated cluster episodes (faults, schedules, heterogeneous configurations, user XML-RPC storms with valid '
             'and invalid parameter values) on N real instances; oracle = no critical traceback from a last-resort guard, '
             'no non-RPCError out of an XML-RPC, no exception out of a proxy thread or the main loop, no episode that '
             'never returns (watchdog). Failures are bucketed by (exception type, innermost supvisors function). Held on '
             'everything explored; no absence claim.'),
    'design_ref': 'DESIGN.md 5/C16',
    'note': CLUSTER_NOTE,
    'technique': 'Hypothesis-generated fault/schedule/XML-RPC histories on a cluster simulator, exception bucketing',
}
CHECKS['C02'] = {
    'engine': 'E1-clustersim',
    'category': 'exploration',
    'text': ('Generated cluster episodes (all synchro_options / failure strategies, restart / shutdown / end_sync requests, '
             'process crashes with RESTART / SHUTDOWN strategies, faults and schedules); oracle = the exact per-incarnation '
             'sequence of published Supvisors states follows a golden copy of the documented graph, working / ending '
             'states are entered with a RUNNING Master and by non-Masters only after their Master. Two known findings '
             '(supvisors_failure_strategy=SHUTDOWN) are recorded in known_findings.json.'),
    'design_ref': 'DESIGN.md 5/C02',
    'note': CLUSTER_NOTE,
    'technique': 'Hypothesis-generated histories on a cluster simulator, invariant over the published state history',
}

CHECKS['C01'] = {
    'engine': 'E1-clustersim',
    'category': 'exploration',
    'text': ('Generated cluster episodes (all synchro_options subsets incl. USER played by the harness, core subsets, both '
             'auto_fence values; crashes, quick / slow restarts, cuts, isolations, heals, late boots, perturbed schedules) '
             'followed by a quiet suffix; oracles: automatic requests only from a self-Master, one Master per group of '
             'connected non-isolated instances (member of the group, RUNNING for all, self-Master), Master retention, '
             'exact election rule on fault-free boots. Bounded-liveness form (K ticks).'),
    'design_ref': 'DESIGN.md 5/C01',
    'note': CLUSTER_NOTE,
    'technique': 'Hypothesis-generated fault/schedule histories on a cluster simulator, validity predicate at quiescence',
}
CHECKS['C08'] = {
    'engine': 'E1-clustersim',
    'category': 'exploration',
    'text': ('Generated cluster episodes (faults in any Supvisors state incl. DISTRIBUTION / CONCILIATION / ELECTION, on '
             'Master or not; CONTINUE / RESYNC strategies; all conciliation strategies; sequenced applications with '
             'generated process behaviours) followed by a fair suffix of K ticks; oracle: every connected non-isolated '
             'group is in its Master state (OPERATION, or CONCILIATION only under USER with a conflict left) with no '
             'job pending. Bounded-liveness form.'),
    'design_ref': 'DESIGN.md 5/C08',
    'note': CLUSTER_NOTE,
    'technique': 'Hypothesis-generated fault histories on a cluster simulator, bounded-liveness predicate after a fair suffix',
}

CHECKS['C15'] = {
    'engine': 'E3-solo',
    'category': 'exploration',
    'text': ('Differential property tests on real ApplicationStatus / ProcessStatus objects: application state and '
             'required-based status recomputed from the statement over generated state vectors; formulas generated from '
             'a grammar compared with a harness evaluator working on the generated tree; hostile / ill-formed strings must '
             'be rejected at load or give a boolean major failure, with a sys.addaudithook monitor proving that nothing '
             'else is executed. Held on everything explored.'),
    'design_ref': 'DESIGN.md 5/C15',
    'note': ('Trusted: the reference evaluators (about 60 lines), the audit-hook white list, Hypothesis. Bounds: <= 6 '
             'processes, formula depth <= 3, hostile strings <= 40 characters. Leaf truth taken from the code (running '
             'or expected exit).'),
    'technique': 'Hypothesis differential testing vs reference evaluator + audit-hook side-effect oracle on hostile inputs',
}
CHECKS['C20'] = {
    'engine': 'E3-solo',
    'category': 'exploration',
    'text': ('Stateful model-based test of the real host / process statistics compilers: generated sample streams '
             '(changing interface / disk / partition sets, independent counter wraps, pid changes, pid 0, unseen sources, '
             'timestamps around the period, local and JSON round-tripped payloads); after every push depth, alignment, '
             'period gate (against a model of the reference times), CPU range, non-negative finite rates, dropped '
             'history on pid 0 are checked in the structures and in the returned payloads. Part b drives the real '
             'ProcessStatisticsCollector (fake psutil, virtual clock) with generated start / new pid / stop / silent death '
             '/ collect sequences against a reference model of the tracked processes: a stopped or replaced process is '
             'published with pid 0 (what makes the compiler drop its history), a live one never is and keeps being sampled.'),
    'design_ref': 'DESIGN.md 5/C20',
    'note': ('Trusted: the stream generator (monotonic jiffies, CPU work consistent with the core count), the model of '
             'the period gate, Hypothesis. Bounds: 3 identifiers, 3 namespecs, stats_histo 10-13, <= 90 pushes per stream.'),
    'technique': ('Hypothesis rule-based state machine with invariants after every step (compilers) + Hypothesis '
                  'operation sequences against a reference model (collector)'),
}

CHECKS['C07'] = {
    'engine': 'E1-clustersim',
    'category': 'exploration',
    'text': ('Generated cluster episodes (tick phases, delays, inactivity_ticks 2-4, both auto_fence values; crashes, '
             'restarts, symmetric cuts, one-way message losses, isolations, heals; processes running / stopping on the '
             'victims); per ordered pair (observer, peer) the harness keeps its own record of TICK receptions, handshake '
             'incarnations and failed calls and checks accuracy (no live peer declared lost), completeness (silence and '
             'failed calls detected within the stated tick bounds, STOPPED / ISOLATED per the fencing rule, nothing left '
             'listed on the lost instance) and the documented instance state graph.'),
    'design_ref': 'DESIGN.md 5/C07',
    'note': CLUSTER_NOTE,
    'technique': 'Hypothesis-generated fault/delay histories on a cluster simulator, bounded-time detection oracle',
}

CHECKS['C12'] = {
    'engine': 'E1-clustersim',
    'category': 'exploration',
    'text': ('Generated cluster episodes mixing process activity from every source with handshakes, late boots, crashes, '
             'restarts, healed cuts and one-way losses, and steps injected inside the handshake XML-RPCs; at quiescence the '
             'instances every observer lists for every process are compared with the true process tables of the fake '
             'Supervisors it sees RUNNING, and members of a connected group with each other. Three protocol-level root '
             'causes found on the pinned tree are recorded as known findings (event around an asymmetric handshake, '
             'publication lost on a failed call, quick restart not revealed by the tick counter), each recognised by a '
             'diagnosis from harness-side records so that any other stale view is still a violation.'),
    'design_ref': 'DESIGN.md 5/C12',
    'note': CLUSTER_NOTE,
    'technique': 'Hypothesis-generated histories on a cluster simulator, differential oracle against ground truth at quiescence',
}

CHECKS['C14'] = {
    'engine': 'E1-clustersim',
    'category': 'exploration',
    'text': ('Generated clusters (2-6 real instances over 1-3 nodes, background load placed through the Supervisors, '
             'optional instance restarts, target application with generated distribution / identifiers rules / program '
             'knowledge) are run to OPERATION on the simulator; the real get_supvisors_instance is compared, for the six '
             'strategies and generated candidate lists / loads / pending requests, with a reference computed from the '
             'simulator topology and true placement, and a real start_application is checked against the distribution '
             'rule (single instance able to carry the whole sequence, single node, rules, knowledge, 100 % cap).'),
    'design_ref': 'DESIGN.md 5/C14',
    'note': ('Trusted: the simulator, the reference placement function (about 25 lines), Hypothesis. Ties accepted; '
             'SINGLE_NODE node choice checked by validity only. Bounds: <= 6 instances, <= 3 nodes, <= 4 target programs.'),
    'technique': 'Hypothesis differential testing of the placement function vs reference model on simulated clusters',
}

CHECKS['C18'] = {
    'engine': 'E3-solo',
    'category': 'exploration',
    'text': ('Differential test of the real rules Parser (lxml + XSD and ElementTree paths) against a reference resolver '
             'working on generated abstract documents (aliases, model chains with cycles, names and overlapping patterns, '
             'in- and out-of-domain values), and metamorphic / domain-table test of SupvisorsOptions (an out-of-domain '
             'value gives exactly the options obtained without the key; ValueError iff synchro_options ends up empty; '
             'CORE / STRICT dropped; TIMEOUT forces CONTINUE; purity across instances).'),
    'design_ref': 'DESIGN.md 5/C18',
    'note': ('Trusted: the reference resolver (about 120 lines) and the option domain table transcribed from '
             "docs/configuration.rst, Hypothesis. Not generated: '#' / '@' sign resolution, pathological regular "
             'expressions, multicast / file options.'),
    'technique': 'Hypothesis differential testing vs reference resolver + metamorphic option fallback relation',
}

CHECKS['C04'] = {
    'engine': 'E1-clustersim',
    'category': 'exploration',
    'text': ('Generated cluster episodes (several instances per node, explicit identifier rules, three distributions, '
             'instances knowing different programs, enable / disable, concurrent start requests on several instances with '
             'all strategies, crashes / restarts); every start request leaving an instance is checked at creation against '
             'an independent recomputation (target RUNNING for the requester, program known and enabled on the real '
             'Supervisor, identifiers rule resolved by the harness, node load from the requester view + its pending starts '
             '<= 100, not already running / requested) and "No resource available" against the harness eligibility set. Two '
             'root causes found on the pinned tree are recorded as known findings with a diagnosis.'),
    'design_ref': 'DESIGN.md 5/C04',
    'note': CLUSTER_NOTE,
    'technique': 'Hypothesis-generated histories on a cluster simulator, per-request differential oracle',
}

CHECKS['C10'] = {
    'engine': 'E1-clustersim',
    'category': 'exploration',
    'text': ('Generated cluster episodes with requests swallowed by the target, repeated BACKOFF, spawn errors, slow / '
             'TERM-ignoring / unkillable children, dropped PROCESS publications, loss of the target at any point, concurrent '
             'start / stop / restart requests; per instance and Commander the number of local ticks with a job reported in '
             'progress after the last request is bounded by B computed from the configuration (reported), forced states '
             'carry a reason, and no job is reported after the quiet suffix. Bounded-liveness form on the virtual clock.'),
    'design_ref': 'DESIGN.md 5/C10',
    'note': CLUSTER_NOTE,
    'technique': 'Hypothesis-generated loss/fault histories on a cluster simulator, bounded-liveness counter per job',
}

CHECKS['C09'] = {
    'engine': 'E1-clustersim',
    'category': 'exploration',
    'text': ('Generated cluster episodes (stop_sequence at both levels incl. defaults inherited from start_sequence, '
             'unmanaged applications, prompt / slow / TERM-ignoring / unkillable children, user stop / restart requests and '
             'supvisors.restart / shutdown on any instance, crashes). Every stop request leaving an instance is checked at '
             'creation against the emitter view and the true process states (no higher stop_sequence of the application - '
             'or, in the ending phase, of another application - still active unless given up; target lists the process as '
             'running); every supervisor.restart / shutdown order is checked (at most one per incarnation, Master Stopper '
             'idle, nothing still running in the Master view and in truth); on a settled cluster an accepted request must '
             'reach the Master, and once the Master applied its own order every member that was not crashed must have '
             'received exactly one and have published FINAL. One root cause (process started after the stop plan) is a '
             'recorded known finding; five defects were repaired.'),
    'design_ref': 'DESIGN.md 5/C09',
    'note': CLUSTER_NOTE,
    'technique': 'Hypothesis-generated histories on a cluster simulator, per-request ordering oracle against true states',
}

CHECKS['C03'] = {
    'engine': 'E1-clustersim',
    'category': 'exploration',
    'text': ('Generated cluster episodes (start_sequence 0-3 at both levels, wait_exit, required, the three starting '
             'failure strategies, startsecs 0-12, behaviours: early exit -> BACKOFF .. FATAL, spawn error, exit after '
             'RUNNING, request swallowed; crash / restart of instances; triggers: automatic distribution, restart_sequence, '
             'start / restart / stop_application on any instance). Every start request leaving an instance is checked at '
             'creation against the requests seen on the wire and the true Supervisor states of the targets: lower positive '
             'sequences of the application requested by the emitter are resolved (ran / exited for wait_exit / failed / '
             'given up / target lost), sequence numbers never decrease inside a job, no unresolved request and (in '
             'DISTRIBUTION, at job begin) no planned job for an application of lower positive sequence, sequence 0 never '
             'started automatically, nothing of higher sequence requested after a known required failure under ABORT / '
             'STOP, and under STOP what the job started is stopped. Two defects repaired.'),
    'design_ref': 'DESIGN.md 5/C03',
    'note': CLUSTER_NOTE,
    'technique': 'Hypothesis-generated histories on a cluster simulator, per-request ordering oracle against true states',
}

CHECKS['C17'] = {
    'engine': 'E1-clustersim',
    'category': 'exploration',
    'text': ('Generated cluster episodes bringing real instances (Master and non-Master) to every Supvisors state by a real '
             'history (late boots, crashes, restarts, conflicts kept by the USER conciliation, stops that last during '
             'restart / shutdown, USER synchronisation) under storms of XML-RPCs: every public method with valid and '
             'invalid parameter values. Per call, golden gating table transcribed from the statement and docs/xml_rpc.rst: '
             'BAD_SUPVISORS_STATE outside the documented states and not inside them, BAD_NAME for names absent from the '
             'whole configuration, INCORRECT_PARAMETERS for unknown strategies, NOT_MANAGED for unmanaged applications; a '
             'call rejected with one of these faults emits no request and leaves FSM state, Master, Starter / Stopper '
             'activity unchanged. Whole rows of the matrix are generated too (rpc_sweep: every method on one '
             'instance within one second; make_conflict builds the duplicates that hold CONCILIATION): the quick tier '
             'reaches each of the 24 x 9 (method x state) cells, listed in the evidence class distribution. One '
             'defect repaired (restart_application on an unmanaged application).'),
    'design_ref': 'DESIGN.md 5/C17',
    'note': CLUSTER_NOTE,
    'technique': ('Hypothesis-generated histories, XML-RPC storms and method x state matrix rows on a cluster '
                  'simulator, golden state-gating table'),
}

CHECKS['C13'] = {
    'engine': 'E1-clustersim',
    'category': 'exploration',
    'text': ('Generated cluster episodes with auto_fence, cuts / one-way losses / heals, crashes, restarts, process activity '
             'and, with some probability, one instance configured with a different strategy. All internal messages really '
             'exchanged are recorded; generated probes re-inject through the real entry point (sendRemoteCommEvent) '
             'messages claiming to come from a peer the receiver holds ISOLATED (all publication and notification kinds, '
             'stale / duplicated, with non-matching origin fields) and process / removal / disability events (also forced) '
             'claiming a peer not admitted yet. Non-interference oracle on the observable snapshot (all status XML-RPCs '
             'plus the context process tables; fields unstable without any message are masked) before / after every such '
             'message, natural or injected; nothing enqueued for a peer after its isolation; ISOLATED never left; a peer '
             'whose handshake answer reports the local instance ISOLATED or different strategies is never admitted.'),
    'design_ref': 'DESIGN.md 5/C13',
    'note': CLUSTER_NOTE,
    'technique': 'Hypothesis-generated histories on a cluster simulator + generated message injection, metamorphic '
                 'non-interference oracle on observable snapshots',
}

CHECKS['C19'] = {
    'engine': 'E1-clustersim',
    'category': 'exploration',
    'text': ('Generated settled clusters (2-6 real instances on 1-3 nodes, background loads, a target application with the '
             'three distribution rules, identifiers rules, programs known by subsets) in OPERATION. (1) Metamorphic: every '
             'test_start_application / test_start_process call (also "group:*", repeated, all strategies) is bracketed by '
             'observable snapshots of the requester (status XML-RPCs, per-instance process information, loads, jobs, Starter / '
             'Stopper activity) that must be identical, with no request emitted and nothing enqueued, and a repeated '
             'prediction must answer the same. (2) Differential: the real start_application / start_process is issued from '
             'the same situation with children starting normally and the targets of its start requests are compared with '
             'the prediction. One side-effect defect repaired; two root causes of prediction / real divergence are recorded '
             'as known findings with a diagnosis.'),
    'design_ref': 'DESIGN.md 5/C19',
    'note': CLUSTER_NOTE,
    'technique': 'Hypothesis-generated settled clusters; metamorphic no-side-effect relation + differential against the real start',
}

CHECKS['C05'] = {
    'engine': 'E1-clustersim',
    'category': 'exploration',
    'text': ('Generated cluster episodes (managed and unmanaged applications, the six conciliation strategies, duplicates '
             'created by direct Supervisor starts on other instances and by cuts followed by heals, several at once, with '
             'held / re-ordered deliveries, child exits, slow stops). Bounded-liveness detection oracle (a Master idle in '
             'OPERATION with a managed conflict in its view for 15 s; idle in CONCILIATION with conflicts left / with none '
             'left for 15 s), unmanaged applications never a reason; every stop request of a Master in CONCILIATION is '
             'judged against its view and the true start dates (process in conflict, keeper never stopped, never all '
             'copies at once for SENICIDE / INFANTICIDE, nothing with USER); every decision (time-stamped by an observation '
             'wrapper of conciliate_conflicts) is followed up: copies that were to be stopped and are never asked to while '
             'still running. One race (stops of an earlier decision sent late) is a recorded known finding.'),
    'design_ref': 'DESIGN.md 5/C05',
    'note': CLUSTER_NOTE,
    'technique': 'Hypothesis-generated histories on a cluster simulator, per-request strategy oracle + bounded-liveness counters',
}

CHECKS['C06'] = {
    'engine': 'E1-clustersim',
    'category': 'exploration',
    'text': ('Generated cluster episodes: applications placed by the automatic distribution with per-program running failure '
             'strategies, then one to three disturbances at generated instants (crash of an instance hosting running '
             'children, of the Master, unexpected exit of a running child). Every start / stop request must come from an '
             'instance that holds itself as Master; for every application hit by exactly one disturbance (no other loss '
             'around, no re-distribution afterwards) the effective action is computed by the harness from the generated '
             'rules and the true placement before the disturbance (precedence, promotion, application-level strategies '
             'only for a child crash) and compared after a quiet suffix with the requests emitted and the true final '
             'placement. Part (a): rule-based state machine on the real RunningFailureHandler (Starter / Stopper replaced by recorders) against a reference model of precedence, promotion, exactly-once trigger and deferral.'),
    'design_ref': 'DESIGN.md 5/C06',
    'note': CLUSTER_NOTE,
    'technique': 'Hypothesis-generated fault histories on a cluster simulator (end-state and request oracle from a '
                 'harness-side reference of the strategy semantics) + rule-based state machine of the failure handler '
                 'against a reference model',
}

HOOK_COMMITS = []

ENGINES = [
    {'name': 'E1-clustersim', 'path': 'clustersim/', 'kind_free_text':
        'deterministic cluster simulator: N real Supvisors instances in one process on a fake OS / network / clock; '
        'Hypothesis generates configuration and history; per-property monitors',
     'serves_properties': ['C01', 'C02', 'C03', 'C04', 'C05', 'C06', 'C07', 'C08', 'C09', 'C10', 'C12', 'C13', 'C14', 'C16', 'C17', 'C19']},
    {'name': 'E3-solo', 'path': 'clustersim/solo.py', 'kind_free_text':
        'one real instance with puppet peers / pure component harnesses driven by Hypothesis',
     'serves_properties': ['C11', 'C15', 'C18', 'C20']},
]

_PENDING = 'check not built yet in this round (the technique applies; see DESIGN.md section 5)'
NOT_APPLICABLE = {}
