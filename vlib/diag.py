"""Diagnosis helpers: coarse root-cause signatures (function names, never line numbers)."""
import os
import re
import traceback


def exception_signature(exc: BaseException):
    """(signature, detail) for an exception raised by the code under test: type @ innermost supvisors function."""
    tb = traceback.extract_tb(exc.__traceback__)
    where = '?'
    for frame in tb:
        fn = frame.filename.replace('\\', '/')
        if '/supvisors/' in fn and '/verif/' not in fn:
            where = f'{os.path.splitext(os.path.basename(fn))[0]}.{frame.name}'
    detail = ''.join(traceback.format_exception_only(type(exc), exc)).strip()
    return f'internal:{type(exc).__name__}@{where}', detail[:400]


_FRAME = re.compile(r'File "[^"]*/supvisors/([\w/]+)\.py", line \d+, in (\w+)')


def traceback_signature(text: str):
    """Signature from a formatted traceback found in a critical log record."""
    frames = _FRAME.findall(text)
    lines = [ln for ln in text.strip().splitlines() if ln.strip()]
    exc = lines[-1].split(':')[0].strip() if lines else '?'
    if frames:
        mod, fn = frames[-1]
        return f'internal:{exc}@{mod.split("/")[-1]}.{fn}'
    return f'internal:{exc}@?'
