"""Common runner machinery: sharding, triage against known findings, replay files, evidence.

Every check module in /verif/checks exposes

    PROPERTY_ID : str
    LEVEL       : str   (EVIDENCE.schema level)
    RULE        : str   (how cases are generated and what makes one non-trivial)
    ASSUMPTIONS : list[str]
    def run_shard(ctx: ShardCtx) -> ShardResult     # executed in a worker process
    def replay(case: dict) -> list[Finding]         # re-executes one concrete case without Hypothesis

A *finding* is (signature, detail, case): ``signature`` is a coarse root-cause key (function names, never line
numbers), ``case`` is a JSON-serialisable concrete input sufficient to reproduce it through ``replay``.
Exit codes: 0 = held on everything explored (known findings are printed as KNOWN-FINDING lines),
1 = at least one finding not listed in known_findings.json (VIOLATION line), 2 = harness error.
"""
from __future__ import annotations

import hashlib
import glob
import json
import os
import sys
import time
import traceback
from collections import Counter
from dataclasses import dataclass, field
from typing import Any, Callable, Dict, List, Optional

VERIF_DIR = os.path.dirname(os.path.dirname(os.path.abspath(__file__)))
EVIDENCE_DIR = os.path.join(VERIF_DIR, 'evidence')
REPLAY_DIR = os.path.join(VERIF_DIR, 'replays')
KNOWN_FINDINGS = os.path.join(VERIF_DIR, 'known_findings.json')


def setup_paths() -> None:
    """Make the repository under test importable (VERIF_REPO overrides /repo) plus optional local deps."""
    repo = os.environ.get('VERIF_REPO', '/repo')
    if repo not in sys.path:
        sys.path.insert(0, repo)
    deps = os.path.join(VERIF_DIR, '.deps')
    if os.path.isdir(deps) and deps not in sys.path:
        sys.path.append(deps)
    if VERIF_DIR not in sys.path:
        sys.path.insert(0, VERIF_DIR)


def stable_hash(obj: Any) -> str:
    return hashlib.sha1(json.dumps(obj, sort_keys=True, default=repr).encode()).hexdigest()[:16]


@dataclass
class Finding:
    signature: str
    detail: str
    case: Any

    def to_json(self):
        return {'signature': self.signature, 'detail': self.detail, 'case': self.case}


@dataclass
class ShardCtx:
    property_id: str
    tier: str
    seed: int
    shard: int
    nshards: int
    known: List[str]          # signatures listed in known_findings.json for this property (active ones)
    budget: float = 1.0       # multiplier on case counts (VERIF_BUDGET), for experiments only

    @property
    def hyp_seed(self) -> int:
        return self.seed * 1000 + self.shard

    def scale(self, quick: int, thorough: int) -> int:
        n = quick if self.tier == 'quick' else thorough
        return max(1, int(n * self.budget / self.nshards))


@dataclass
class ShardResult:
    evaluations: int = 0
    nontrivial: set = field(default_factory=set)
    samples: list = field(default_factory=list)
    classes: Counter = field(default_factory=Counter)
    findings: List[Finding] = field(default_factory=list)
    known_hits: Counter = field(default_factory=Counter)
    extra: Dict[str, Any] = field(default_factory=dict)
    inconclusive: List[str] = field(default_factory=list)

    def note(self, case_key: Any, nontrivial: bool, sample: Any = None, klass: Optional[str] = None,
             max_samples: int = 3) -> None:
        """Count one generated case."""
        self.evaluations += 1
        if nontrivial:
            h = stable_hash(case_key)
            if h not in self.nontrivial:
                self.nontrivial.add(h)
                if sample is not None and len(self.samples) < max_samples:
                    self.samples.append(sample)
        if klass:
            self.classes[klass] += 1

    def to_json(self):
        return {'evaluations': self.evaluations, 'nontrivial': sorted(self.nontrivial), 'samples': self.samples,
                'classes': dict(self.classes), 'findings': [f.to_json() for f in self.findings],
                'known_hits': dict(self.known_hits), 'extra': self.extra, 'inconclusive': self.inconclusive}

    @staticmethod
    def from_json(d):
        r = ShardResult()
        r.evaluations = d['evaluations']
        r.nontrivial = set(d['nontrivial'])
        r.samples = d['samples']
        r.classes = Counter(d['classes'])
        r.findings = [Finding(**f) for f in d['findings']]
        r.known_hits = Counter(d['known_hits'])
        r.extra = d['extra']
        r.inconclusive = d['inconclusive']
        return r


class PropertyViolation(AssertionError):
    """Raised inside a Hypothesis test for a finding that is not known; carries the signature and the case."""

    def __init__(self, signature: str, detail: str, case: Any):
        super().__init__(f'{signature}: {detail}')
        self.signature = signature
        self.detail = detail
        self.case = case


class Triage:
    """Per-shard helper: decides whether a finding is raised into Hypothesis (unknown signature) or merely counted
    (signature listed as a known finding, or already reported once by this shard)."""

    def __init__(self, ctx: ShardCtx, result: ShardResult):
        self.ctx = ctx
        self.result = result
        self.muted: set = set(ctx.known)
        self.last: Optional[PropertyViolation] = None

    def report(self, signature: str, detail: str, case: Any) -> None:
        if signature in self.muted:
            self.result.known_hits[signature] += 1
            return
        self.last = PropertyViolation(signature, detail, case)
        raise self.last

    def collect(self, fn: Callable[[], None], max_rounds: int = 4) -> None:
        """Run a Hypothesis-driven function repeatedly: each round stops at the first unknown signature, which is
        recorded (minimal case as left by the shrinker = last raised) and muted, so that other root causes behind
        it are still found (collect-then-continue)."""
        for _ in range(max_rounds):
            self.last = None
            try:
                fn()
                return
            except PropertyViolation as exc:
                v = self.last or exc
            except BaseException as exc:  # hypothesis wraps / re-raises; find our violation in the chain
                v = self.last
                if v is None:
                    raise
            self.result.findings.append(Finding(v.signature, v.detail, v.case))
            self.muted.add(v.signature)


def load_known(property_id: str) -> Dict[str, dict]:
    """Active known findings (entries with status 'known') for a property: {signature: entry}."""
    if not os.path.exists(KNOWN_FINDINGS):
        return {}
    with open(KNOWN_FINDINGS) as f:
        data = json.load(f)
    out = {}
    for entry in data.get('findings', []):
        if entry.get('property') == property_id and entry.get('status') == 'known':
            out[entry['signature']] = entry
    return out


def write_replay(property_id: str, finding: Finding) -> str:
    os.makedirs(REPLAY_DIR, exist_ok=True)
    payload = {'property': property_id, 'signature': finding.signature, 'detail': finding.detail,
               'case': finding.case}
    path = os.path.join(REPLAY_DIR, f'{property_id}-{stable_hash(payload)}.json')
    with open(path, 'w') as f:
        json.dump(payload, f, indent=1, sort_keys=True, default=repr)
    return path


def write_evidence(module, tier: str, seed: int, merged: ShardResult, wall: float, violations: int,
                   known_printed: List[str]) -> str:
    os.makedirs(EVIDENCE_DIR, exist_ok=True)
    coverage = {'evaluations': merged.evaluations,
                'distinct_nontrivial': len(merged.nontrivial),
                'rule': module.RULE,
                'samples': merged.samples[:6],
                'class_distribution': dict(merged.classes),
                'known_findings_observed': dict(merged.known_hits),
                'known_findings_printed': known_printed,
                'inconclusive': merged.inconclusive}
    coverage.update(merged.extra)
    evidence = {'property_id': module.PROPERTY_ID, 'tier': tier, 'seed': seed, 'level': module.LEVEL,
                'coverage': coverage, 'assumptions': list(module.ASSUMPTIONS), 'wall_s': round(wall, 2),
                'violations': violations}
    path = os.path.join(EVIDENCE_DIR, f'{module.PROPERTY_ID}.json')
    with open(path + '.tmp', 'w') as f:
        json.dump(evidence, f, indent=1, sort_keys=True, default=repr)
    os.replace(path + '.tmp', path)
    return path


def _worker(args):
    modname, ctx_dict = args
    setup_paths()
    try:
        import faulthandler
        import signal
        faulthandler.register(signal.SIGUSR1, all_threads=True)   # kill -USR1 <pid> dumps the stack (debug aid)
    except Exception:
        pass
    import importlib
    try:
        module = importlib.import_module(modname)
        ctx = ShardCtx(**ctx_dict)
        res = module.run_shard(ctx)
        return ('ok', res.to_json())
    except BaseException:
        return ('err', traceback.format_exc())


def merge(results: List[ShardResult]) -> ShardResult:
    m = ShardResult()
    for r in results:
        m.evaluations += r.evaluations
        m.nontrivial |= r.nontrivial
        for s in r.samples:
            if len(m.samples) < 6:
                m.samples.append(s)
        m.classes.update(r.classes)
        m.findings.extend(r.findings)
        m.known_hits.update(r.known_hits)
        m.inconclusive.extend(r.inconclusive)
        for k, v in r.extra.items():
            if isinstance(v, (int, float)) and isinstance(m.extra.get(k, 0), (int, float)) and not isinstance(v, bool):
                m.extra[k] = m.extra.get(k, 0) + v
            elif isinstance(v, dict) and isinstance(m.extra.get(k, {}), dict):
                d = m.extra.setdefault(k, {})
                for kk, vv in v.items():
                    if isinstance(vv, (int, float)) and not isinstance(vv, bool):
                        d[kk] = d.get(kk, 0) + vv
                    else:
                        d.setdefault(kk, vv)
            else:
                m.extra.setdefault(k, v)
    return m


def main(argv: Optional[List[str]] = None) -> int:
    import argparse
    import importlib
    parser = argparse.ArgumentParser()
    parser.add_argument('property')
    parser.add_argument('--tier', default=os.environ.get('VERIF_TIER', 'quick'), choices=['quick', 'thorough'])
    parser.add_argument('--replay')
    parser.add_argument('--shards', type=int, default=int(os.environ.get('VERIF_SHARDS', '0')))
    args = parser.parse_args(argv)
    # deterministic hashing: re-exec once with PYTHONHASHSEED pinned
    if os.environ.get('PYTHONHASHSEED') is None:
        env = dict(os.environ, PYTHONHASHSEED='0')
        os.execve(sys.executable, [sys.executable] + sys.argv, env)
    setup_paths()
    pid = args.property.upper()
    modname = f'checks.{pid.lower()}'
    t0 = time.time()
    try:
        module = importlib.import_module(modname)
    except Exception:
        traceback.print_exc()
        print(f'HARNESS-ERROR property={pid} cannot import check module')
        return 2
    known = load_known(pid)
    if args.replay:
        with open(args.replay) as f:
            payload = json.load(f)
        try:
            findings = module.replay(payload['case'])
        except Exception:
            traceback.print_exc()
            print(f'HARNESS-ERROR property={pid} replay crashed')
            return 2
        bad = [f for f in findings if f.signature not in known]
        for f in findings:
            tag = 'KNOWN-FINDING:' if f.signature in known else 'REPRODUCED'
            print(f'{tag} property={pid} {f.signature}: {f.detail}')
        if bad:
            print(f'VIOLATION property={pid} replay={args.replay}')
            return 1
        print(f'replay of {args.replay}: no unknown violation')
        return 0
    try:
        seed = int(os.environ.get('VERIF_SEED', '1'))
    except ValueError:
        seed = 1
    nshards = args.shards or getattr(module, 'SHARDS', {}).get(args.tier, 16 if args.tier == 'thorough' else 8)
    budget = float(os.environ.get('VERIF_BUDGET', '1'))
    ctxs = [dict(property_id=pid, tier=args.tier, seed=seed, shard=i, nshards=nshards, known=sorted(known),
                 budget=budget) for i in range(nshards)]
    import multiprocessing as mp
    results: List[ShardResult] = []
    errors: List[str] = []
    if nshards == 1:
        outs = [_worker((modname, ctxs[0]))]
    else:
        mpctx = mp.get_context('fork')
        # safety net above the per-case watchdogs of the checks: a shard that does not come back within the wall budget
        # makes the run inconclusive (exit 2), never a violation and never an endless run
        wall_budget = float(os.environ.get('VERIF_WALL_BUDGET', '1800' if args.tier == 'quick' else '21600'))
        with mpctx.Pool(min(nshards, os.cpu_count() or 1), maxtasksperchild=1) as pool:
            pending = pool.map_async(_worker, [(modname, c) for c in ctxs], chunksize=1)
            try:
                outs = pending.get(timeout=wall_budget)
            except mp.TimeoutError:
                pool.terminate()
                print(f'INCONCLUSIVE property={pid} a shard did not finish within {wall_budget:.0f}s of wall time')
                print(f'HARNESS-ERROR property={pid} wall budget exceeded')
                return 2
    for status, payload in outs:
        if status == 'ok':
            results.append(ShardResult.from_json(payload))
        else:
            errors.append(payload)
    if errors:
        for e in errors[:3]:
            print(e)
        print(f'HARNESS-ERROR property={pid} {len(errors)} shard(s) crashed')
        return 2
    merged = merge(results)
    # regression tier: the saved failing inputs of defects that have been repaired are replayed on every run; a finding
    # they produce is treated like one met by the random search (a fixed entry suppresses nothing)
    regressions = sorted(glob.glob(os.path.join(VERIF_DIR, 'regressions', f'{pid}-*.json')))
    for rp in regressions:
        try:
            with open(rp) as f:
                case = json.load(f)['case']
            for finding in module.replay(case):
                merged.findings.append(finding)
        except Exception:
            traceback.print_exc()
            print(f'HARNESS-ERROR property={pid} regression replay {rp} crashed')
            return 2
    merged.classes['regression-inputs-replayed'] += len(regressions)
    # committed replays of known findings (if the check provides a reproducer) are re-run so that the KNOWN-FINDING
    # line is printed whenever the defect is still present, even if random search did not meet it this time
    known_printed: List[str] = []
    for sig, entry in sorted(known.items()):
        observed = merged.known_hits.get(sig, 0)
        reproduced = False
        rp = entry.get('replay')
        if rp and not observed:
            try:
                with open(os.path.join(VERIF_DIR, rp)) as f:
                    case = json.load(f)['case']
                reproduced = any(f.signature == sig for f in module.replay(case))
            except Exception:
                traceback.print_exc()
                print(f'HARNESS-ERROR property={pid} known-finding replay {rp} crashed')
                return 2
        if observed or reproduced:
            how = f'observed {observed}x' if observed else 'reproduced by committed replay'
            print(f'KNOWN-FINDING: property={pid} {sig}: {entry.get("what", "")} [{how}]')
            known_printed.append(sig)
    # unknown findings
    by_sig: Dict[str, Finding] = {}
    for f in merged.findings:
        if f.signature in known:
            continue
        cur = by_sig.get(f.signature)
        if cur is None or len(json.dumps(f.case, default=repr)) < len(json.dumps(cur.case, default=repr)):
            by_sig[f.signature] = f
    wall = time.time() - t0
    write_evidence(module, args.tier, seed, merged, wall, len(by_sig), known_printed)
    print(f'[{pid}] tier={args.tier} seed={seed} shards={nshards} evaluations={merged.evaluations} '
          f'distinct_nontrivial={len(merged.nontrivial)} classes={dict(merged.classes)} wall={wall:.1f}s')
    for note in merged.inconclusive[:5]:
        print(f'INCONCLUSIVE property={pid} {note}')
    if by_sig:
        for sig, f in sorted(by_sig.items()):
            path = write_replay(pid, f)
            print(f'  finding {sig}: {f.detail[:300]}')
            print(f'VIOLATION property={pid} replay={os.path.relpath(path, VERIF_DIR)}')
        return 1
    return 0
