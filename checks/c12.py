"""C12 - All instances agree on where processes run, and that view is true (cluster simulator, quiescence oracle)."""
from hypothesis import strategies as st

from clustersim.episode import Profile, episode_st
from clustersim.monitors import RestartTracker, live_view, components
from clustersim.world import Monitor
from checks.cluster import EpisodeCheck, fault_classes

PROPERTY_ID = 'C12'
LEVEL = 'exploration'
RULE = ('Hypothesis-generated episodes on the cluster simulator: 2-4 real instances; process activity from every source '
        '(Supvisors start sequences, direct Supervisor starts / stops, exits, crashes, slow stops) concurrent with '
        'handshakes, late boots, crashes, quick and slow restarts, cuts and one-way losses healed while processes change '
        'state, with steps of other queues injected inside the handshake XML-RPCs; then a quiet suffix until all queues '
        'are empty and no handshake is in progress. Oracle at quiescence, for every live instance X and every process p: '
        'the instances X lists for p are exactly the instances X sees RUNNING whose Supervisor reports p STARTING / '
        'BACKOFF / RUNNING (true process tables of the fake Supervisors); all members of a connected group list the '
        'same set and agree on running versus stopped; which stopped-like state is displayed is not compared. '
        'Non-trivial = a process changes state while some pair of instances is inside a handshake, or a fault occurs '
        'with processes running; distinct = distinct episodes.')
ASSUMPTIONS = ['a process whose Supervisor state is STOPPING at quiescence may be listed or not',
               'a stale view explained by a restart that the tick counter cannot reveal, or by an event emitted while '
               'the handshake was asymmetric, is reported under its own (known finding) signature']
SHARDS = {'quick': 16, 'thorough': 16}

RUNNING_LIKE = (10, 20, 30)


class P(Profile):
    n_min = 2
    n_max = 4
    apps_max = 2
    progs_max = 2
    fault_ops = ('crash', 'restart', 'restart', 'restart_checked', 'restart_checked', 'cut', 'mute', 'isolate', 'heal', 'heal_all', 'boot')
    proc_ops = ('exit', 'direct_start', 'direct_start', 'direct_start', 'direct_stop', 'direct_stop')
    user_ops = ()
    op_rate = 0.45
    ops_per_step_max = 3
    steps_max = 60
    warmups = (0, 20, 30, 45)
    inject_rate = 0.4
    hold_rate = 0.3
    late_boot = 0.4
    auto_fence = (False,)
    sv_failure = ('CONTINUE',)
    conciliation = ('USER',)
    running_failure = ('CONTINUE',)
    sync_sets = ('TIMEOUT', 'LIST,TIMEOUT', 'CORE,TIMEOUT')
    autorestart = ('false', 'false', 'true')


class PJoin(P):
    """Joins during long DISTRIBUTION phases (the newcomer stays CHECKED until OPERATION) and restarts of the instances
    that are in the handshake window of somebody."""
    startsecs = (12, 12, 6)
    sequences = (1, 2, 3)
    progs_max = 3
    late_boot = 0.7
    warmups = (15, 20, 30)
    fault_ops = ('restart_checked', 'restart_checked', 'restart_checked', 'restart', 'boot', 'crash')
    proc_ops = ('direct_start', 'direct_start', 'direct_stop', 'exit')
    op_rate = 0.5
    hold_rate = 0.1
    inject_rate = 0.2


class ActivityMonitor(Monitor):
    """Records, for the diagnosis, the handshake windows and the times of true process state changes."""

    def __init__(self):
        self.checking_since = {}     # (X idx, X inc, ident) -> time entered CHECKING
        self.windows = {}            # (X idx, X inc, ident) -> (t CHECKING, t CHECKED) of the last completed handshake
        self.last_change = {}        # (i idx, namespec) -> time of the last real state change published by i
        self.in_handshake = 0
        self.asym = {}               # (sender idx, receiver idx, namespec) -> (time, reason) for the LAST change
        self.lost = {}               # (sender idx, receiver idx, namespec) -> time of a publication lost on a failed call
        from supvisors.ttypes import SUPVISORS_PUBLICATION, PublicationHeaders
        self.publication_type = SUPVISORS_PUBLICATION
        self.process_code = PublicationHeaders.PROCESS.value
        self.change_during_handshake = False
        self.fault_with_running = False

    def on_instance_state(self, inst, identifier, new_state):
        key = (inst.idx, inst.incarnation, identifier)
        now = inst.world.now
        if new_state.name == 'CHECKING':
            self.checking_since[key] = now
        elif new_state.name == 'CHECKED':
            self.windows[key] = (self.checking_since.get(key, now), now)
            self.checking_since.pop(key, None)
        elif key in self.checking_since:
            self.checking_since.pop(key, None)

    def on_publication(self, inst, ptype, body):
        if ptype.name == 'PROCESS' and not body.get('forced'):
            namespec = f"{body['group']}:{body['name']}"
            now = inst.world.now
            self.last_change[(inst.idx, namespec)] = now
            if self.checking_since:
                self.change_during_handshake = True
            # diagnosis: is the handshake asymmetric for some receiver at this very moment?
            for x in inst.world.instances:
                if x is inst or not x.alive or x.supvisors is None:
                    continue
                sender_view = inst.supvisors.context.instances[x.identifier].state.name
                receiver_view = x.supvisors.context.instances[inst.identifier].state.name
                if sender_view not in ('CHECKING', 'CHECKED', 'RUNNING', 'FAILED'):
                    self.asym[(inst.idx, x.idx, namespec)] = (now, f'not sent: {x.nick} is {sender_view} for the sender')
                elif receiver_view not in ('CHECKED', 'RUNNING'):
                    self.asym[(inst.idx, x.idx, namespec)] = (now, f'discarded: sender is {receiver_view} for {x.nick}')
                else:
                    self.asym.pop((inst.idx, x.idx, namespec), None)

    def on_rpc(self, src, dst, name, args, outcome, result):
        # a PROCESS publication lost because the call failed (nothing re-sends it)
        if outcome == 'oserror' and dst is not None and name == 'supervisor.sendRemoteCommEvent' and len(args) == 2:
            try:
                import json
                origin, (ptype, body) = json.loads(args[1])
                if args[0] == self.publication_type and ptype == self.process_code and not body.get('forced'):
                    self.lost[(src.idx, dst.idx, f"{body['group']}:{body['name']}")] = src.world.now
            except Exception:
                pass


def make_monitors(episode):
    return [RestartTracker(), ActivityMonitor()]


def view_of(inst):
    """{namespec: (set of identifiers, running?)} as reported by the instance."""
    out = {}
    with inst.world.as_current(inst):
        for app in inst.supvisors.context.applications.values():
            for proc in app.processes.values():
                ser = proc.serial()
                out[proc.namespec] = (set(ser['identifiers']), ser['statecode'] in RUNNING_LIKE or ser['statecode'] == 40)
    return out


def evaluate(runner, monitors):
    tracker, activity = monitors
    world = runner.world
    live = [i for i in world.instances if i.alive and not i.stopping]
    # quiescence: no pending message, no handshake in progress
    if world.pending():
        yield ('harness:not-quiescent', f'{len(world.pending())} queues not empty after the suffix')
        return
    stale_pairs = set(tracker.undetected(world))
    views = {}
    for x in live:
        states = live_view(x)['instances']
        if any(s in ('CHECKING', 'CHECKED') for s in states.values()):
            continue          # a handshake is (still) in progress for this observer: excluded
        views[x.idx] = (states, view_of(x))
    found = []
    for x in live:
        if x.idx not in views:
            continue
        states, procs = views[x.idx]
        for namespec, (listed, running) in sorted(procs.items()):
            expected, maybe = set(), set()
            for i in world.instances:
                if states.get(i.identifier) != 'RUNNING' or not i.alive:
                    continue
                truth = i.truth().get(namespec)
                if truth in RUNNING_LIKE:
                    expected.add(i.identifier)
                elif truth == 40:
                    maybe.add(i.identifier)
            # instances X sees RUNNING but that are dead / unreachable are about to be invalidated: excluded
            unsure = {i.identifier for i in world.instances
                      if states.get(i.identifier) == 'RUNNING' and (not i.alive or not world.reachable(i, x))}
            extra = listed - expected - maybe - unsure
            missing = expected - listed - unsure
            if not extra and not missing:
                continue
            for ident in sorted(extra | missing):
                peer = world.by_identifier(ident)
                kind = 'stale-listed' if ident in extra else 'missing-listed'
                why = ''
                if (x.nick, peer.nick) in stale_pairs:
                    # the known gap is a restart, faster than the detection, of a peer that the observer holds RUNNING;
                    # a restart while the handshake is in progress (CHECKING / CHECKED) is detected by the TICK counter
                    # NOTE: the documented mechanism reveals a quick restart by a TICK counter that goes back; the known
                    #       gap is the restart of a peer whose counter was still about 0 for the observer (young peer,
                    #       or counter reset because the observer did not hold it active). A restart that is not seen
                    #       although the observer held an active peer with a higher counter is another matter
                    #       (the counter comparison itself noticed nothing: no "stealth restart" warning of the observer)
                    held = tracker.restart_context(world, x.nick, peer.nick)
                    state, counter, t_restart = (held.split(':') + ['', '', ''])[:3]
                    noticed = any('stealth restart' in msg and peer.identifier in msg and t >= float(t_restart or 0) - 1
                                  for t, _lvl, msg in (x.all_records + x.logger.records))
                    if state in ('CHECKING', 'CHECKED', 'RUNNING') and int(counter or 0) >= 3 and not noticed:
                        sig = f'undetected-restart:tick-counter-went-back-unnoticed:held-{state}'
                    else:
                        sig = 'undetected-quick-restart'
                else:
                    t_change = activity.last_change.get((peer.idx, namespec))
                    win = activity.windows.get((x.idx, x.incarnation, ident))
                    asym = activity.asym.get((peer.idx, x.idx, namespec))
                    lost = activity.lost.get((peer.idx, x.idx, namespec))
                    why = ''
                    if asym is not None and t_change is not None and asym[0] == t_change:
                        sig, why = 'stale-view:event-during-handshake', asym[1]
                    elif t_change is not None and win is not None and win[0] <= t_change <= win[1]:
                        sig, why = 'stale-view:event-during-handshake', 'change inside the handshake window'
                    elif t_change is not None and any(rec[1] == 'not_sent' and rec[2] == peer.idx and rec[3] == x.identifier
                                                      and rec[4] == 'PROCESS' and rec[5] == namespec and rec[0] >= t_change
                                                      for rec in world.log):
                        sig, why = 'stale-view:event-during-handshake', 'skipped by the sender: receiver not active for it'
                    elif lost is not None and t_change is not None and lost >= t_change:
                        sig, why = 'stale-view:process-event-lost-on-failed-call', f'publication lost at t={lost}'
                    else:
                        sig = f'stale-view:{kind}'
                found.append((sig, f'{x.nick} lists {namespec} on {sorted(listed)}; the Supervisors it sees RUNNING report '
                              f'it running on {sorted(expected)} (diff {ident}: truth={peer.truth().get(namespec)}, '
                              f'last change t={activity.last_change.get((peer.idx, namespec))}, handshake window='
                              f'{activity.windows.get((x.idx, x.incarnation, ident))}; {why})'))
    # agreement inside connected groups
    for comp, clique in components(world):
        members = [i for i in comp if i.idx in views]
        if not clique or len(members) < 2:
            continue
        ref = views[members[0].idx][1]
        for other in members[1:]:
            cur = views[other.idx][1]
            for namespec in sorted(set(ref) & set(cur)):
                if ref[namespec][0] != cur[namespec][0] and not any(f[1].find(namespec) >= 0 for f in found):
                    found.append(('disagreement', f'{members[0].nick} lists {namespec} on {sorted(ref[namespec][0])}, '
                                  f'{other.nick} on {sorted(cur[namespec][0])}'))
    seen = set()
    for sig, detail in found:
        if sig not in seen:
            seen.add(sig)
            yield sig, detail


def classify(runner, monitors, episode):
    tracker, activity = monitors
    classes = fault_classes(runner)
    if activity.change_during_handshake:
        classes.append('change-during-handshake')
    running_at_fault = False
    nontrivial = activity.change_during_handshake or (runner.faults_applied > 0 and bool(activity.last_change))
    return nontrivial, classes


CHECK = EpisodeCheck(PROPERTY_ID, st.one_of(episode_st(P), episode_st(P), episode_st(PJoin)), make_monitors, evaluate, classify,
                     quick=1000, thorough=14000,
                     suffix_kwargs={'ticks': 14, 'boot_dead': None})


def run_shard(ctx):
    return CHECK.run_shard(ctx)


def replay(case):
    return CHECK.replay(case)
