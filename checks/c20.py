"""C20 - Statistics histories stay bounded, aligned and sane (stateful test on the real compilers)."""
from __future__ import annotations

import json
import math

import hypothesis
from hypothesis import settings, strategies as st, Phase, HealthCheck
from hypothesis.stateful import RuleBasedStateMachine, rule, precondition, run_state_machine_as_test

from vlib.core import ShardCtx, ShardResult, Triage, Finding
from vlib.diag import exception_signature

PROPERTY_ID = 'C20'
LEVEL = 'exploration'
RULE = ('Hypothesis rule-based state machine on the real HostStatisticsCompiler / ProcStatisticsCompiler: generated '
        'stats_periods (1-3 values), stats_histo 10-30, IRIX / Solaris mode; host samples with non-decreasing per-CPU '
        '(work, idle) jiffies and a fixed CPU count per identifier, interface / disk / partition sets that grow, shrink '
        'and re-appear, each byte counter wrapping independently, timestamps advancing by less than / exactly / more '
        'than a period; process samples with pid changes, pid 0, unseen namespecs and identifiers, cumulative CPU '
        'consistent with the core count; local samples as Python tuples and remote ones after a JSON round trip. '
        'After every push: series length <= stats_histo, value series aligned with their time series, a point only '
        'when >= period elapsed since the reference, CPU in [0,100] per core (process CPU in [0,100 x cores], divided '
        'in Solaris mode), rates finite and >= 0 everywhere (histories and returned payloads), no holder after pid 0. '
        'Part b (collector side of "the history of a stopped process is dropped"): generated sequences of start / '
        'restart under a new pid / repeated event / stop / silent death / collect(dt) on the real '
        'ProcessStatisticsCollector (fake psutil, virtual clock, 5 namespecs) against a reference model: after every '
        'operation the collector tracks exactly the (namespec, pid) pairs of the model, a stopped or replaced process '
        'is published with pid 0 (which is what makes the compiler drop its history), a live one never is, and a '
        'collect after a full period samples every live tracked process. '
        'Non-trivial = stream with a changing key set, a counter wrap or a pid change, long enough to truncate a '
        'history (part b: a stop among three tracked processes, or a silent death followed by a full collect); '
        'distinct = distinct operation sequences.')
ASSUMPTIONS = ['the number of CPUs of one identifier is constant (DESIGN 8.6)',
               'timestamps of one source are strictly increasing']
SHARDS = {'quick': 8, 'thorough': 16}

IDENTS = ['i1:60001', 'i2:60002', 'i3:60003']
NICS = ['eth0', 'eth1', 'wlan0']
DISKS = ['sda', 'sdb']
PARTS = ['/', '/home']
NAMESPECS = ['app:a', 'app:b', 'supervisord']
WRAP = 2 ** 32


class FakeOptions:
    def __init__(self, periods, histo, irix):
        self.stats_periods = periods
        self.stats_histo = histo
        self.stats_irix_mode = irix


class FakeLogger:
    def warn(self, *a, **k): pass
    info = debug = trace = error = critical = blather = warn


class FakeSupvisors:
    def __init__(self, options):
        self.options = options
        self.logger = FakeLogger()


class Harness:
    def __init__(self, periods, histo, irix):
        from supvisors.statscompiler import HostStatisticsCompiler, ProcStatisticsCompiler
        self.periods = sorted(periods)
        self.histo = histo
        self.irix = irix
        self.options = FakeOptions(self.periods, histo, irix)
        self.sv = FakeSupvisors(self.options)
        self.host = HostStatisticsCompiler(self.sv)
        self.proc = ProcStatisticsCompiler(self.options, self.sv.logger)
        self.ops = []
        self.flags = set()
        # generator-side state per identifier
        self.now = {}
        self.ncpu = {}
        self.jiffies = {}
        self.counters = {}      # ident -> {('net', name): [in, out], ...}
        self.present = {}       # ident -> set of keys present in the last sample
        # model: expected reference time per (ident, period) for hosts; per (namespec, ident, period) for processes
        self.host_ref = {}
        self.proc_ref = {}
        self.proc_pid = {}
        self.proc_work = {}
        self.cores = {}
        self.max_len = 0

    # --- host samples
    def op_host(self, ident, dt, cpu_steps, mem, keys, incs, wraps, remote):
        ident = IDENTS[ident % len(IDENTS)]
        if ident not in self.now:
            self.now[ident] = 1000.0
            self.ncpu[ident] = max(1, len(cpu_steps))
            self.jiffies[ident] = [[0.0, 0.0] for _ in range(self.ncpu[ident])]
            self.counters[ident] = {}
        self.now[ident] += dt
        now = self.now[ident]
        n = self.ncpu[ident]
        for k in range(n):
            work, idle = cpu_steps[k % len(cpu_steps)]
            self.jiffies[ident][k][0] += work
            self.jiffies[ident][k][1] += idle
        cpu = [tuple(j) for j in self.jiffies[ident]]
        if n > 1:
            avg = (sum(j[0] for j in cpu) / n, sum(j[1] for j in cpu) / n)
            cpu = [avg] + cpu
        net, disk, usage = {}, {}, {}
        keyset = set()
        # the key set is sticky: ``keys`` toggles entries of the previous set (first sample: it is the set)
        prev = self.present.get(ident)
        if prev is None:
            current = [tuple(k) for k in keys] or [('net', 'eth0'), ('disk', 'sda'), ('part', '/')]
        else:
            current = set(prev)
            for k in keys:
                current ^= {tuple(k)}
            current = sorted(current)
        for kind, name in current:
            key = (kind, name)
            keyset.add(key)
            if kind == 'part':
                usage[name] = float(incs[len(keyset) % len(incs)][0] % 101)
                continue
            cnt = self.counters[ident].setdefault(key, [0, 0])
            inc = incs[len(keyset) % len(incs)]
            wrap = wraps[len(keyset) % len(wraps)]
            for side in (0, 1):
                cnt[side] += inc[side]
                if wrap[side]:
                    cnt[side] = cnt[side] % 1000     # counter restarted from (near) zero
                    self.flags.add('wrap')
                    if wrap[side] and not wrap[1 - side]:
                        self.flags.add('single-counter-wrap')
            (net if kind == 'net' else disk)[name] = (cnt[0], cnt[1])
        if ident in self.present and self.present[ident] != keyset:
            self.flags.add('keyset-change')
        self.present[ident] = keyset
        stats = {'now': now, 'cpu': cpu, 'mem': mem, 'net_io': net, 'disk_io': disk, 'disk_usage': usage}
        if remote:
            stats = json.loads(json.dumps(stats))
        # model of the period gate
        expected_points = set()
        for period in self.periods:
            ref = self.host_ref.get((ident, period))
            if ref is None:
                self.host_ref[(ident, period)] = now
            elif now - ref >= period:
                expected_points.add(period)
                self.host_ref[(ident, period)] = now
        results = self.host.push_statistics(ident, stats)
        got = {r['target_period'] for r in results}
        if got != expected_points:
            return ('period-gate:host', f'{ident} now={now}: integrated periods {sorted(got)}, expected '
                    f'{sorted(expected_points)} (references {[self.host_ref.get((ident, p)) for p in self.periods]})')
        for r in results:
            bad = self._check_payload_host(r, n)
            if bad:
                return bad
        return self._check_host(ident)

    def _check_payload_host(self, r, ncpu):
        for v in r['cpu']:
            if not _finite(v) or v < -1e-9 or v > 100.0 + 1e-9:
                return ('cpu-range:host-payload', f'cpu value {v} in integrated payload')
        for fam in ('net_io', 'disk_io'):
            for name, vals in r[fam].items():
                for v in vals:
                    if not _finite(v) or v < 0:
                        return ('io-rate:payload', f'{fam}[{name}] rate {v} in integrated payload')
        return None

    def _check_host(self, ident):
        for period in self.periods:
            inst = self.host.get_stats(ident, period)
            if inst is None:
                return ('missing-host-instance', f'{ident} period {period}')
            nt = len(inst.times)
            self.max_len = max(self.max_len, nt)
            if nt > self.histo:
                return ('depth:times', f'{ident}/{period}: {nt} time points > stats_histo={self.histo}')
            if len(inst.mem) != nt:
                return ('alignment:mem', f'{ident}/{period}: {len(inst.mem)} mem points for {nt} time points')
            for k, lst in enumerate(inst.cpu):
                if len(lst) != nt:
                    return ('alignment:cpu', f'{ident}/{period}: cpu[{k}] has {len(lst)} points for {nt} time points')
                for v in lst:
                    if not _finite(v) or v < -1e-9 or v > 100.0 + 1e-9:
                        return ('cpu-range:host', f'{ident}/{period}: cpu[{k}] value {v}')
            for fam, hist in (('net_io', inst.net_io), ('disk_io', inst.disk_io), ('disk_usage', inst.disk_usage)):
                for name, (uptimes, series) in hist.items():
                    if len(uptimes) > self.histo:
                        return (f'depth:{fam}', f'{ident}/{period}: {fam}[{name}] has {len(uptimes)} points')
                    for lst in series:
                        if len(lst) != len(uptimes):
                            return (f'alignment:{fam}', f'{ident}/{period}: {fam}[{name}] has {len(lst)} values for '
                                    f'{len(uptimes)} time points')
                        for v in lst:
                            if not _finite(v) or v < 0:
                                return (f'io-rate:{fam}', f'{ident}/{period}: {fam}[{name}] value {v}')
        return None

    # --- process samples
    def op_proc(self, n, ident, dt, pid, cpu_frac, mem, cores, remote):
        namespec = NAMESPECS[n % len(NAMESPECS)]
        ident = IDENTS[ident % len(IDENTS)]
        key = (namespec, ident)
        self.now.setdefault(('p',) + key, 500.0)
        self.now[('p',) + key] += dt
        now = self.now[('p',) + key]
        stats = {'namespec': namespec, 'pid': pid, 'now': now}
        ncores = self.cores.setdefault(ident, cores)
        if pid > 0:
            if self.proc_pid.get(key) not in (None, pid):
                self.flags.add('pid-change')
            if self.proc_pid.get(key) != pid:
                self.proc_work[key] = 0.0
            # cumulative CPU seconds, consistent with the core count
            self.proc_work[key] = self.proc_work.get(key, 0.0) + cpu_frac * ncores * dt
            stats['proc_work'] = self.proc_work[key]
            stats['proc_memory'] = mem
            if namespec == 'supervisord':
                stats['nb_cores'] = ncores
        else:
            self.flags.add('pid0')
        if remote:
            stats = json.loads(json.dumps(stats))
        # model
        expected = set()
        if pid == 0:
            for period in self.periods:
                self.proc_ref.pop(key + (period,), None)
            self.proc_pid.pop(key, None)
        else:
            if self.proc_pid.get(key) != pid:
                for period in self.periods:
                    self.proc_ref.pop(key + (period,), None)
            self.proc_pid[key] = pid
            for period in self.periods:
                ref = self.proc_ref.get(key + (period,))
                if ref is None:
                    self.proc_ref[key + (period,)] = now
                elif now - ref >= period:
                    expected.add(period)
                    self.proc_ref[key + (period,)] = now
        results = self.proc.push_statistics(ident, stats)
        got = {r['target_period'] for r in results}
        if got != expected:
            return ('period-gate:process', f'{namespec}@{ident} now={now} pid={pid}: integrated {sorted(got)}, expected '
                    f'{sorted(expected)}')
        for r in results:
            if not _finite(r['cpu']) or r['cpu'] < -1e-6 or r['cpu'] > 100.0 * ncores + 1e-6:
                return ('cpu-range:process-payload', f'{namespec}@{ident}: cpu {r["cpu"]} with {ncores} cores')
        return self._check_proc(namespec, ident, pid, ncores)

    def _check_proc(self, namespec, ident, pid, ncores):
        known_cores = self.proc.get_nb_cores(ident)
        for period in self.periods:
            inst = self.proc.get_stats(namespec, ident, period)
            if pid == 0:
                if inst is not None:
                    return ('stopped-process-kept', f'{namespec}@{ident}: history still returned after a pid 0 sample')
                continue
            if inst is None:
                return ('missing-process-instance', f'{namespec}@{ident}/{period}')
            nt = len(inst.times)
            self.max_len = max(self.max_len, nt)
            if nt > self.histo:
                return ('depth:process', f'{namespec}@{ident}/{period}: {nt} points > {self.histo}')
            if len(inst.cpu) != nt or len(inst.mem) != nt:
                return ('alignment:process', f'{namespec}@{ident}/{period}: cpu {len(inst.cpu)} mem {len(inst.mem)} '
                        f'times {nt}')
            factor = 1 if self.irix else (known_cores or 1)
            limit = 100.0 * ncores / factor
            for v in inst.cpu:
                if not _finite(v) or v < -1e-6 or v > limit + 1e-6:
                    return ('cpu-range:process', f'{namespec}@{ident}/{period}: cpu {v} (limit {limit}, irix={self.irix})')
        return None

    def nontrivial(self):
        return bool(self.flags & {'keyset-change', 'wrap', 'pid-change'}) and self.max_len >= self.histo


def _finite(v):
    return isinstance(v, (int, float)) and not isinstance(v, bool) and math.isfinite(v)


def run_ops(h: Harness, ops):
    """Replays recorded operations; returns (signature, detail) or None."""
    for op in ops:
        try:
            bad = getattr(h, 'op_' + op[0])(*op[1:])
        except Exception as exc:
            return exception_signature(exc)
        if bad:
            return bad
    return None


dt_st = st.sampled_from([0.5, 1.0, 2.5, 5.0, 5.0, 7.5, 10.0, 15.0, 30.0])
key_st = st.one_of(st.tuples(st.just('net'), st.sampled_from(NICS)), st.tuples(st.just('disk'), st.sampled_from(DISKS)),
                   st.tuples(st.just('part'), st.sampled_from(PARTS)))


def make_machine(triage, result):
    class C20Machine(RuleBasedStateMachine):
        def __init__(self):
            super().__init__()
            self.h = None
            self.done = False

        @precondition(lambda self: self.h is None)
        @rule(periods=st.lists(st.sampled_from([1.0, 2.5, 5.0, 10.0, 15.0, 30.0]), min_size=1, max_size=3, unique=True),
              histo=st.integers(10, 13), irix=st.booleans())
        def setup(self, periods, histo, irix):
            self.h = Harness(periods, histo, irix)
            self.config = {'periods': sorted(periods), 'histo': histo, 'irix': irix}

        def _do(self, op):
            if self.h is None:
                self.h = Harness([5.0], 10, False)
                self.config = {'periods': [5.0], 'histo': 10, 'irix': False}
            if self.done:
                return
            h = self.h
            h.ops.append(list(op))
            try:
                bad = getattr(h, 'op_' + op[0])(*op[1:])
            except Exception as exc:
                bad = exception_signature(exc)
            if bad:
                self.done = True
                triage.report(bad[0], bad[1], {'config': self.config, 'ops': h.ops})

        @rule(ident=st.sampled_from([0, 0, 0, 0, 1, 2]), dt=dt_st,
              cpu_steps=st.lists(st.tuples(st.floats(0, 500), st.floats(0, 500)), min_size=1, max_size=3),
              mem=st.floats(0, 100),
              keys=st.one_of(st.just([]), st.just([]), st.just([]), st.lists(key_st, min_size=0, max_size=2, unique=True)),
              incs=st.lists(st.tuples(st.integers(0, 10 ** 7), st.integers(0, 10 ** 7)), min_size=1, max_size=3),
              wraps=st.lists(st.tuples(st.integers(0, 9).map(lambda x: x == 0), st.integers(0, 9).map(lambda x: x == 0)),
                             min_size=1, max_size=3),
              remote=st.booleans())
        def host(self, ident, dt, cpu_steps, mem, keys, incs, wraps, remote):
            self._do(('host', ident, dt, [list(c) for c in cpu_steps], mem, [list(k) for k in keys],
                      [list(i) for i in incs], [list(w) for w in wraps], remote))

        @rule(n=st.sampled_from([0, 0, 0, 1, 2]), ident=st.sampled_from([0, 0, 0, 1, 2]), dt=dt_st, pid=st.sampled_from([0, 100, 100, 100, 101, 102]),
              cpu_frac=st.floats(0, 1), mem=st.floats(0, 100), cores=st.integers(1, 4), remote=st.booleans())
        def proc(self, n, ident, dt, pid, cpu_frac, mem, cores, remote):
            self._do(('proc', n, ident, dt, pid, cpu_frac, mem, cores, remote))

        def teardown(self):
            if self.h is not None:
                h = self.h
                result.note(h.ops, h.nontrivial(), sample={'config': self.config, 'ops': h.ops[:4]})
                for f in h.flags:
                    result.classes[f] += 1
                if h.max_len >= h.histo:
                    result.classes['history-truncated'] += 1
                result.classes['ops'] += len(h.ops)

    return C20Machine


# --- part b: the collector side of "the history of a stopped process is dropped" (real ProcessStatisticsCollector on a
# fake psutil and a virtual clock, against a reference model of the tracked processes)
COLL_NS = ['app:a', 'app:b', 'app:c', 'app:d', 'other:e']


class _FakeClock:
    def __init__(self):
        self.now = 1000.0

    def monotonic(self):
        return self.now

    def time(self):
        return self.now

    def sleep(self, _dt):
        pass


class CollectorHarness:
    """Model: tracked = {namespec: pid} (entries the collector must hold), alive = pids alive in the fake OS."""

    def __init__(self, period):
        import psutil
        from supvisors import statscollector as sc
        self.sc, self.psutil = sc, psutil
        self.alive = set()
        self.clock = _FakeClock()
        self.posts = []
        self.tracked = {}
        self.next_pid = 100
        self.flags = set()
        harness = self

        class FakeProcess:
            def __init__(self, pid=None):
                if pid is not None and pid not in harness.alive:
                    raise psutil.NoSuchProcess(pid)
                self.pid = 1 if pid is None else pid

        class FakePsutil:
            NoSuchProcess, AccessDenied = psutil.NoSuchProcess, psutil.AccessDenied
            Process = FakeProcess

        class Conn:
            def send(self, stats):
                harness.posts.append(dict(stats))

        self.saved = (sc.psutil, sc.time, sc.instant_process_statistics)
        sc.psutil, sc.time = FakePsutil, self.clock
        sc.instant_process_statistics = lambda proc, *a: (1.0, 1.0) if proc.pid in harness.alive or proc.pid in (1, 2) else None
        self.alive.add(2)
        self.period = period
        self.coll = sc.ProcessStatisticsCollector(Conn(), period, True, 2)

    def close(self):
        self.sc.psutil, self.sc.time, self.sc.instant_process_statistics = self.saved

    def _view(self):
        return sorted((d['namespec'], d['process'].pid) for d in self.coll.processes)

    def _check(self, what, expect_zero=()):
        new, self.posts = self.posts, []
        zeros = [x['namespec'] for x in new if x.get('pid') == 0]
        for ns in expect_zero:
            if ns not in zeros:
                return ('collector:stopped-process-not-published', f'{what}: no pid 0 posted for the stopped {ns} '
                        f'(the compiler keeps its history); posts {new}')
        for ns in zeros:
            if ns not in expect_zero:
                return ('collector:live-process-published-as-stopped', f'{what}: pid 0 posted for {ns} which is alive '
                        f'and tracked; posts {new}')
        if self._view() != sorted(self.tracked.items()):
            return ('collector:tracked-processes-differ', f'{what}: collector holds {self._view()}, expected '
                    f'{sorted(self.tracked.items())}')
        return None

    def op_start(self, k):
        ns = COLL_NS[k]
        self.next_pid += 1
        pid = self.next_pid
        self.alive.add(pid)
        expect = ()
        if ns in self.tracked:
            self.flags.add('pid-change')
            self.alive.discard(self.tracked[ns])
            expect = (ns,)
        self.tracked[ns] = pid
        self.coll.update_process_list(ns, pid)
        return self._check(f'start {ns} pid {pid}', expect)

    def op_same(self, k):
        ns = COLL_NS[k]
        if ns not in self.tracked or self.tracked[ns] not in self.alive:
            return None
        self.coll.update_process_list(ns, self.tracked[ns])
        return self._check(f'repeated event {ns}')

    def op_stop(self, k):
        ns = COLL_NS[k]
        expect = ()
        if ns in self.tracked:
            self.alive.discard(self.tracked.pop(ns))
            expect = (ns,)
            self.flags.add('stop-tracked')
            if len(self.tracked) >= 2:
                self.flags.add('stop-among-3')
        self.coll.update_process_list(ns, 0)
        return self._check(f'stop {ns}', expect)

    def op_die(self, k):
        ns = COLL_NS[k]
        if ns in self.tracked:
            self.alive.discard(self.tracked[ns])
            self.flags.add('silent-death')
        return None

    def op_collect(self, dt):
        self.clock.now += dt
        before = dict(self.tracked)
        n = 0
        while self.coll.collect_processes_statistics() and n < 50:
            n += 1
        dead = [ns for ns, pid in before.items() if pid not in self.alive]
        new = list(self.posts)
        zeros = [x['namespec'] for x in new if x.get('pid') == 0]
        for ns in zeros:
            if ns in dead:
                self.tracked.pop(ns, None)
        bad = self._check(f'collect +{dt}', tuple(ns for ns in zeros if ns in dead))
        if bad:
            return bad
        if dt >= self.period:
            # every tracked process is due: the live ones are sampled, the dead ones published as stopped
            sampled = {x['namespec'] for x in new if x.get('pid')}
            for ns, pid in before.items():
                if pid in self.alive and ns not in sampled:
                    return ('collector:live-process-not-sampled', f'collect +{dt} (period {self.period}): {ns} pid {pid} '
                            f'is alive and tracked but no sample was posted; posts {new}')
                if pid not in self.alive and ns not in zeros:
                    return ('collector:stopped-process-not-published', f'collect +{dt}: {ns} pid {pid} died, no pid 0 '
                            f'posted; posts {new}')
            self.flags.add('full-collect')
        return None


coll_ops_st = st.lists(st.one_of(
    st.tuples(st.just('start'), st.integers(0, len(COLL_NS) - 1)),
    st.tuples(st.just('start'), st.integers(0, len(COLL_NS) - 1)),
    st.tuples(st.just('start'), st.integers(0, len(COLL_NS) - 1)),
    st.tuples(st.just('same'), st.integers(0, len(COLL_NS) - 1)),
    st.tuples(st.just('stop'), st.integers(0, len(COLL_NS) - 1)),
    st.tuples(st.just('die'), st.integers(0, len(COLL_NS) - 1)),
    st.tuples(st.just('collect'), st.sampled_from([0.5, 1.0, 5.0, 5.0, 10.0]))), min_size=3, max_size=40)


def run_collector_ops(period, ops):
    h = CollectorHarness(period)
    try:
        for op in ops:
            try:
                bad = getattr(h, 'op_' + op[0])(*op[1:])
            except Exception as exc:
                bad = exception_signature(exc)
            if bad:
                return bad, h
        return None, h
    finally:
        h.close()


def run_shard(ctx: ShardCtx) -> ShardResult:
    result = ShardResult()
    triage = Triage(ctx, result)
    n_examples = ctx.scale(1600, 40000)
    phases = [Phase.generate] if ctx.tier == 'quick' else [Phase.generate, Phase.shrink]

    def go():
        machine = hypothesis.seed(ctx.hyp_seed + 7919 * len(result.findings))(make_machine(triage, result))
        run_state_machine_as_test(machine, settings=settings(
            max_examples=n_examples, stateful_step_count=90, deadline=None, database=None,
            report_multiple_bugs=False, phases=phases, suppress_health_check=list(HealthCheck), print_blob=False))

    triage.collect(go)

    def go_collector():
        @hypothesis.seed(ctx.hyp_seed + 104729 * len(result.findings))
        @settings(max_examples=ctx.scale(1500, 30000), deadline=None, database=None, phases=phases,
                  suppress_health_check=list(HealthCheck), print_blob=False)
        @hypothesis.given(period=st.sampled_from([1.0, 5.0, 10.0]), ops=coll_ops_st)
        def test(period, ops):
            bad, h = run_collector_ops(period, ops)
            case = {'kind': 'collector', 'period': period, 'ops': [list(op) for op in ops]}
            nontrivial = 'stop-among-3' in h.flags or ('silent-death' in h.flags and 'full-collect' in h.flags)
            result.note(['collector', period] + case['ops'], nontrivial, sample=case if len(ops) < 8 else None)
            for f in h.flags:
                result.classes['collector:' + f] += 1
            result.classes['collector-sequences'] += 1
            if bad:
                triage.report(bad[0], bad[1], case)
        test()

    triage.collect(go_collector)
    return result


def replay(case) -> list:
    if case.get('kind') == 'collector':
        bad, _h = run_collector_ops(case['period'], [tuple(op) for op in case['ops']])
        return [Finding(bad[0], bad[1], case)] if bad else []
    cfg = case['config']
    h = Harness(cfg['periods'], cfg['histo'], cfg['irix'])
    bad = run_ops(h, [tuple(op) for op in case['ops']])
    return [Finding(bad[0], bad[1], case)] if bad else []
