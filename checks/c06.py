"""C06 - Running failure strategies are applied once, by the Master, with precedence (cluster simulator, end to end)."""
from hypothesis import strategies as st

from clustersim.episode import Profile, episode_st
from clustersim.rulesref import RulesRef
from clustersim.world import Monitor
from checks.cluster import EpisodeCheck, fault_classes

PROPERTY_ID = 'C06'
LEVEL = 'exploration'
RULE = ('Hypothesis-generated episodes on the cluster simulator: 2-4 real instances, 1-3 managed applications x 1-3 '
        'programs placed by the automatic distribution, per-program running failure strategies (CONTINUE, RESTART_PROCESS, '
        'STOP_APPLICATION, RESTART_APPLICATION), one or a few disturbances after the warm-up: crash of an instance (also '
        'the Master, also during start / stop sequences) or unexpected exit of a child. Oracle: (who) every start / stop '
        'request is emitted by an instance that holds itself as Master; (what) for every application hit by exactly one '
        'disturbance and not re-distributed afterwards, the effective action is the maximum of the strategies of the '
        'processes that ran only on the lost instance (STOP_APPLICATION > RESTART_APPLICATION > RESTART_PROCESS > CONTINUE, '
        'RESTART_PROCESS promoted when the whole application was on the lost instance and the process is sequenced; for a '
        'child crash only the application-level strategies act) and after the quiet suffix: STOP_APPLICATION - nothing of '
        'the application runs and nothing was started; RESTART_APPLICATION - the survivors were asked to stop and every '
        'sequenced process runs exactly once again (or is FATAL for the Master); RESTART_PROCESS - each lost process runs '
        'on exactly one survivor (or is FATAL for the Master) and nothing else of the application was stopped or started; '
        'CONTINUE - no request at all concerns the application. Non-trivial = an application judged with a non-CONTINUE '
        'effective action; distinct = distinct episodes.')
RULE += (' Part (a): rule-based state machine on the real RunningFailureHandler of a real instance whose Starter / Stopper '
         'are recorders: sequences of add_default_job / add_job (any strategy) / trigger_jobs with a generated set of busy '
         'applications / abort / process state changes; after every step the four job sets equal those of a reference '
         'model of the statement (precedence, promotion when the application is fully stopped and the process sequenced, '
         'exactly-once trigger, deferral while the application has jobs) and are mutually exclusive by precedence.')
ASSUMPTIONS = ['applications hit by several disturbances, or re-distributed after the disturbance (a Master loss leads to a '
               'new DISTRIBUTION that restarts failed applications, as documented), are not judged (counted)',
               'no user request is generated: every request comes from the distribution or from the failure handling',
               'SHUTDOWN / RESTART running failure strategies are not generated here (C09 / C02 cover the ending phase)']
SHARDS = {'quick': 16, 'thorough': 16}

ACTIVE = (10, 20, 30)
PRECEDENCE = ['CONTINUE', 'RESTART_PROCESS', 'RESTART_APPLICATION', 'STOP_APPLICATION']


class P(Profile):
    n_min = 2
    n_max = 4
    apps_max = 3
    progs_max = 3
    fault_ops = ('crash', 'crash', 'crash_master')
    proc_ops = ('exit',)
    user_ops = ()
    op_rate = 0.0
    ops_per_step_max = 1
    steps_max = 40
    hold_rate = 0.1
    order_rate = 0.2
    inject_rate = 0.05
    warmups = (45, 45, 60, 30)
    sv_failure = ('CONTINUE',)
    sync_sets = ('TIMEOUT', 'LIST,TIMEOUT')
    conciliation = ('USER',)
    running_failure = ('CONTINUE', 'RESTART_PROCESS', 'STOP_APPLICATION', 'RESTART_APPLICATION')
    starting_failure = ('CONTINUE',)
    auto_fence = (False, True)
    managed = 1.0
    late_boot = 0.0
    sequences = (1, 1, 2, 0)
    startsecs = (0, 1, 6)
    stopwaitsecs = (1, 7, 12)
    wait_exit = 0.0
    behaviours = False
    default_behaviours = ('run', 'run', 'very_slow_stop', 'ignore_term')
    loads = (0, 10, 20)
    explicit_identifiers = 0.2
    starting = ('LESS_LOADED', 'MOST_LOADED', 'CONFIG', 'LESS_LOADED_NODE')


class FailureMonitor(Monitor):
    def __init__(self, config):
        self.config = config
        self.ref = RulesRef(config)
        self.findings = []
        self.flags = set()
        self.prev_truth = {}       # idx -> {namespec: state} at the previous step
        self.prev_alive = {}
        self.events = {}           # application -> list of disturbances
        self.requests = []         # (time, emitter idx, kind, namespec, target identifier)
        self.distributions = []    # times at which an instance published DISTRIBUTION
        self.warm = False
        self.exits = {}
        self.invalidated_at = {}   # (observer idx, identifier) -> time at which the observer invalidated it
        self.alive_at = {}
        self.prev_truth_at = {}
        self.user_stops = {}       # application -> (time, idx, inc, requested on the Master)
        self.stop_watch = {}       # application -> (time of the loss, idx lost) while its stop job was in progress

    def on_instance_state(self, inst, identifier, new_state):
        if new_state.name in ('STOPPED', 'ISOLATED'):
            self.invalidated_at[(inst.idx, identifier)] = inst.world.now

    def on_warmup_end(self, world):
        self.warm = True

    def on_publication(self, inst, ptype, body):
        if ptype.name == 'STATE' and body.get('fsm_statename') == 'DISTRIBUTION':
            self.distributions.append(inst.world.now)

    def on_user_rpc(self, inst, name, args, outcome):
        if name == 'supvisors.stop_application' and outcome[0] in ('ok', 'deferred') and self.warm:
            app = args[0]
            self.user_stops[app] = (inst.world.now, inst.idx, inst.incarnation, inst.supvisors.state_modes.is_master())
            # a user request is one more disturbance for the per-application judgement
            self.events.setdefault(app, []).append({'time': inst.world.now, 'kind': 'user-stop', 'idx': inst.idx, 'lost': []})
            self.events[app].append({'time': inst.world.now, 'kind': 'user-stop', 'idx': inst.idx, 'lost': []})
            self.flags.add('user-stop')

    def on_request(self, inst, identifier, rtype, body):
        if rtype.name not in ('START_PROCESS', 'STOP_PROCESS'):
            return
        w = inst.world
        namespec = body[0]
        kind = 'start' if rtype.name == 'START_PROCESS' else 'stop'
        self.requests.append((w.now, inst.idx, kind, namespec, identifier))
        app_name = self.ref.progs.get(namespec, {}).get('app')
        if kind == 'start' and app_name in self.stop_watch:
            t_loss, lost = self.stop_watch[app_name]
            _t, ridx, rinc, _m = self.user_stops[app_name]
            # by the same Master, outside a re-distribution (a new Master restarts failed applications, as documented)
            # (and not the deferred repair of a child crash of that application that took place around the stop request)
            crashed = any(e['kind'] in ('exit', 'exit-other') and e['time'] >= _t - 10 for e in self.events.get(app_name, []))
            if w.now - t_loss <= 90 and (inst.idx, inst.incarnation) == (ridx, rinc) and not crashed \
                    and not any(d >= t_loss for d in self.distributions):
                self.findings.append(('process-with-planned-stop-also-repaired', f't={w.now} {inst.nick} requests the start '
                                      f'of {namespec} on {identifier} although {app_name} was being stopped by the Master '
                                      f'(user stop_application at t={self.user_stops[app_name][0]}) when s{lost + 1} was lost '
                                      f'at t={t_loss}: the processes of {app_name} had a stop job planned'))
        if not inst.supvisors.state_modes.is_master():
            self.findings.append(('request-by-non-master', f't={w.now} {inst.nick} ({inst.supvisors.fsm.state.name}, Master '
                                  f'for it: {inst.supvisors.state_modes.master_identifier or "none"}) requests the {kind} '
                                  f'of {namespec} on {identifier}'))

    def after_step(self, world):
        # unexpected exits of children (from the operation log of the simulator)
        for rec in world.log[getattr(self, '_log_pos', 0):]:
            if rec[1] == 'child_exit' and self.warm:
                _t, _k, idx, namespec, code, state = rec[:6]
                p = self.ref.progs.get(namespec)
                if p is not None and (state != 20 or code == 0):
                    # exit while STARTING / STOPPING (a starting failure or a requested stop) or expected exit: not a
                    # running failure, but the application is disturbed once more
                    self.events.setdefault(p['app'], []).append({'time': world.now, 'kind': 'exit-other', 'idx': idx,
                                                                 'lost': []})
                    self.events[p['app']].append({'time': world.now, 'kind': 'exit-other', 'idx': idx, 'lost': []})
                elif p is not None and code != 0:
                    self.events.setdefault(p['app'], []).append({'time': world.now, 'kind': 'exit', 'idx': idx,
                                                                 'lost': [namespec]})
        self._log_pos = len(world.log)
        for inst in world.instances:
            was = self.prev_alive.get(inst.idx, False)
            if was and not inst.alive and self.warm:
                truth = self.prev_truth.get(inst.idx, {})
                self.alive_at[world.now] = [o.idx for o in world.instances if self.prev_alive.get(o.idx)]
                for o in world.instances:
                    self.prev_truth_at[(world.now, o.idx)] = dict(self.prev_truth.get(o.idx, {}))
                # a loss while the Master is stopping an application at the request of the user
                for app_name, (t_stop, ridx, rinc, on_master) in self.user_stops.items():
                    req = world.instances[ridx]
                    if on_master and req.alive and req.incarnation == rinc and req is not inst \
                            and req.supvisors.state_modes.is_master() \
                            and app_name in req.supvisors.stopper.get_application_job_names() \
                            and any(truth.get(q['namespec']) in (10, 20, 30, 40) for q in self.ref.apps[app_name]['programs']):
                        self.stop_watch[app_name] = (world.now, inst.idx)
                        self.flags.add('loss-during-user-stop')
                # processes that ran only there
                for app in self.ref.apps.values():
                    hosted = [q['namespec'] for q in app['programs'] if truth.get(q['namespec']) in ACTIVE]
                    if not hosted:
                        continue
                    only = [n for n in hosted
                            if not any(self.prev_truth.get(o.idx, {}).get(n) in ACTIVE for o in world.instances
                                       if o.idx != inst.idx and self.prev_alive.get(o.idx))]
                    elsewhere = [q['namespec'] for q in app['programs']
                                 if any(self.prev_truth.get(o.idx, {}).get(q['namespec']) in ACTIVE
                                        for o in world.instances if o.idx != inst.idx and self.prev_alive.get(o.idx))]
                    self.events.setdefault(app['name'], []).append({'time': world.now, 'kind': 'loss', 'idx': inst.idx,
                                                                    'lost': only, 'elsewhere': elsewhere,
                                                                    'starting': [n for n in hosted if truth.get(n) != 20]})
            self.prev_alive[inst.idx] = inst.alive
            if inst.alive:
                self.prev_truth[inst.idx] = inst.truth()

    # --- judgement
    def finish(self, world):
        out = list(self.findings)
        alive = [i for i in world.instances if i.alive and i.supvisors is not None]
        masters = [i for i in alive if i.supvisors.state_modes.is_master()]
        if len(masters) != 1 or any(i.supvisors.fsm.state.name != 'OPERATION' for i in alive):
            self.flags.add('not-settled-at-the-end')
            return out
        master = masters[0]
        if master.supvisors.starter.in_progress() or master.supvisors.stopper.in_progress():
            self.flags.add('jobs-at-the-end')
            return out
        truth = {}
        for inst in alive:
            for namespec, state in inst.truth().items():
                if state in ACTIVE:
                    truth.setdefault(namespec, []).append(inst.idx)
        for app_name, events in self.events.items():
            app = self.ref.apps[app_name]
            if len(events) > 1 and all(e['kind'] == 'loss' for e in events) \
                    and max(e['time'] for e in events) - min(e['time'] for e in events) <= 1.0:
                # instances lost together (one node with several instances, a switch failure): one disturbance - if the
                # Master invalidated them in the same round (the detection depends on the TICK phases)
                rounds = {self.invalidated_at.get((master.idx, world.instances[e['idx']].identifier)) for e in events}
                if len(rounds) != 1 or None in rounds:
                    self.flags.add('losses-detected-in-different-rounds')
                    continue
                merged = dict(events[0])
                merged['idxs'] = [e['idx'] for e in events]
                hosted = {n for e in events for n, st_ in self.prev_truth_at.get((e['time'], e['idx']), {}).items()
                          if st_ in ACTIVE and self.ref.progs.get(n, {}).get('app') == app_name}
                survivors = [o for e in events for o in self.alive_at.get(e['time'], ()) if o not in set(merged['idxs'])]
                merged['lost'] = sorted(n for n in hosted
                                        if not any(self.prev_truth_at.get((e['time'], o), {}).get(n) in ACTIVE
                                                   for e in events for o in survivors))
                merged['starting'] = sorted({n for e in events for n in e['starting']})
                lost_idx = set(merged['idxs'])
                merged['elsewhere'] = sorted({n for e in events for n in e['elsewhere']
                                              if any(self.prev_truth_at.get((e2['time'], o), {}).get(n) in ACTIVE
                                                     for e2 in events for o in self.alive_at.get(e2['time'], ())
                                                     if o not in lost_idx)})
                # processes that ran on several lost instances only
                events = [merged]
                self.flags.add('simultaneous-losses')
            if len(events) != 1:
                self.flags.add('application-hit-several-times')
                continue
            ev = events[0]
            t = ev['time']
            if any(d >= t - 1 for d in self.distributions):
                self.flags.add('re-distributed-after-the-disturbance')
                continue
            crashes = [rec for rec in world.log if rec[1] == 'crash' and rec[0] >= t - 30
                       and not (ev['kind'] == 'loss' and rec[2] in ev.get('idxs', [ev['idx']]) and abs(rec[0] - t) <= 2)]
            if crashes:
                self.flags.add('another-loss-around')     # the repair itself may target the other lost instance
                continue
            if ev['kind'] == 'loss' and ev['starting']:
                self.flags.add('lost-while-starting')      # starting failure, not running failure
                continue
            lost = [n for n in ev['lost'] if self.ref.progs[n]['app'] == app_name]
            if not lost:
                continue
            strategies = [self.ref.progs[n]['running_failure_strategy'] for n in lost]
            if ev['kind'] == 'exit':
                # a child crash only triggers the application-level strategies
                strategies = [s if s in ('STOP_APPLICATION', 'RESTART_APPLICATION') else 'CONTINUE' for s in strategies]
            effective = max(strategies, key=PRECEDENCE.index)
            if effective == 'RESTART_PROCESS' and ev['kind'] == 'loss' and not ev['elsewhere'] \
                    and any(self.ref.progs[n]['start_sequence'] > 0 for n in lost
                            if self.ref.progs[n]['running_failure_strategy'] == 'RESTART_PROCESS'):
                effective = 'RESTART_APPLICATION'       # promotion: the application is left fully stopped
                self.flags.add('promotion')
            after = [r for r in self.requests if r[0] >= t - 1 and self.ref.progs.get(r[3], {}).get('app') == app_name]
            self.flags.add(f'judged:{ev["kind"]}:{effective}')
            where = (f'{ev["kind"]} at t={t} (instance s{ev["idx"] + 1}), application {app_name}: processes concerned '
                     f'{lost} with strategies {strategies} -> {effective}; requests afterwards {after[:8]}; running at '
                     f'the end {dict((n, v) for n, v in truth.items() if self.ref.progs.get(n, {}).get("app") == app_name)}')
            running = {n: v for n, v in truth.items() if self.ref.progs.get(n, {}).get('app') == app_name}
            if any(len(v) > 1 for v in running.values()):
                out.append((f'{effective}:process-started-twice', where))
                continue

            def fatal_for_master(n):
                a = master.supvisors.context.applications.get(app_name)
                p = a.processes.get(n.split(':', 1)[1]) if a else None
                return p is not None and int(p.displayed_state) == 200

            if effective == 'CONTINUE':
                if after:
                    out.append(('CONTINUE:requests-emitted', where))
            elif effective == 'STOP_APPLICATION':
                if running:
                    out.append(('STOP_APPLICATION:application-still-running', where))
                elif any(r[2] == 'start' for r in after):
                    out.append(('STOP_APPLICATION:start-requested', where))
            elif effective == 'RESTART_PROCESS':
                targets = [n for n in lost if self.ref.progs[n]['running_failure_strategy'] == 'RESTART_PROCESS']
                for n in targets:
                    if n not in running and not fatal_for_master(n):
                        out.append(('RESTART_PROCESS:not-running-again', f'{n}; {where}'))
                        break
                others = [r for r in after if r[3] not in targets]
                if others:
                    out.append(('RESTART_PROCESS:other-processes-touched', where))
            elif effective == 'RESTART_APPLICATION':
                sequenced = [q['namespec'] for q in app['programs'] if q['start_sequence'] > 0]
                for n in sequenced:
                    if n not in running and not fatal_for_master(n):
                        out.append(('RESTART_APPLICATION:not-running-again', f'{n}; {where}'))
                        break
                survivors = set(ev.get('elsewhere', [])) if ev['kind'] == 'loss' else \
                    {q['namespec'] for q in app['programs'] if q['namespec'] not in lost}
                stopped = {r[3] for r in after if r[2] == 'stop'}
                # the survivors that were running are stopped before the restart
                if ev['kind'] == 'loss' and survivors and not survivors <= stopped:
                    out.append(('RESTART_APPLICATION:survivors-not-stopped', f'{sorted(survivors - stopped)}; {where}'))
        return out


def make_monitors(episode):
    return [FailureMonitor(episode['config'])]


def evaluate(runner, monitors):
    seen = set()
    for sig, detail in monitors[0].finish(runner.world):
        if sig not in seen:
            seen.add(sig)
            yield sig, detail


def classify(runner, monitors, episode):
    mon = monitors[0]
    classes = fault_classes(runner) + sorted(mon.flags)
    nontrivial = any(f.startswith('judged:') and not f.endswith(':CONTINUE') for f in mon.flags)
    return nontrivial, classes


@st.composite
def c06_episode_st(draw):
    """A settled cluster and one disturbance (sometimes two, sometimes three) at generated instants."""
    from clustersim.episode import op_st, namespecs
    episode = draw(episode_st(P))
    config = episode['config']
    steps = [dict(s) for s in episode['steps']]
    for s in steps:
        s.pop('ops', None)
    while len(steps) < 12:
        steps.append({})
    specs = namespecs(config)
    kinds = ['crash_host', 'crash_host', 'crash_host', 'crash', 'crash_master', 'exit_running', 'exit_running']
    for _ in range(draw(st.sampled_from([1, 1, 1, 2, 3]))):
        pos = draw(st.integers(0, len(steps) - 1))
        steps[pos].setdefault('ops', []).append(draw(op_st(config, kinds, specs)))
    if config['n'] >= 3 and draw(st.integers(0, 9)) < 3:
        # two instances hosting children are lost in the same second (detected in the same round)
        pos = draw(st.integers(0, len(steps) - 1))
        steps[pos].setdefault('ops', []).extend([['crash_host', draw(st.integers(0, 7))], ['crash_host', draw(st.integers(0, 7))]])
    if config.get('apps') and draw(st.integers(0, 9)) < 3:
        # the user stops an application on the Master and an instance hosting children is lost during the stop sequence
        pos = draw(st.integers(0, len(steps) - 6))
        app = draw(st.sampled_from([a['name'] for a in config['apps']]))
        steps[pos].setdefault('ops', []).append(['rpc_master', 'stop_application', [app, False]])
        steps[pos + draw(st.integers(1, 4))].setdefault('ops', []).append(['crash_host', draw(st.integers(0, 7))])
    episode['steps'] = steps
    return episode


CHECK = EpisodeCheck(PROPERTY_ID, c06_episode_st(), make_monitors, evaluate, classify, quick=1000, thorough=16000,
                     suffix_kwargs={'ticks': 14, 'boot_dead': False})


def run_shard(ctx):
    # part (b) end to end on the cluster simulator, then part (a): the handler alone against a reference model
    result = CHECK.run_shard(ctx)
    from vlib.core import Triage
    from checks.c06a import run_part_a
    run_part_a(ctx, result, Triage(ctx, result))
    return result


def replay(case):
    if isinstance(case, dict) and 'handler_ops' in case:
        from checks.c06a import replay_a
        return replay_a(case)
    return CHECK.replay(case)
