"""Shared driver for the checks that run on the cluster simulator (engine E1)."""
from __future__ import annotations

import copy
import json
import time
from typing import Callable, List, Optional, Tuple

import hypothesis
from hypothesis import given, settings, HealthCheck, Phase

from vlib.core import ShardCtx, ShardResult, Triage, Finding, PropertyViolation
from vlib.diag import exception_signature


class TooManyHangs(Exception):
    pass


class EpisodeHang(BaseException):
    """Raised by the watchdog (BaseException: it must cross the catch-all guards of the code under test)."""


EPISODE_WALL_LIMIT = 20.0   # seconds of real time for one episode (typical: 0.1 - 0.5 s)


def _alarm(signum, frame):
    # an exception raised while the interpreter runs a gc callback (Hypothesis installs one) is "ignored": a tight loop
    # that allocates runs it all the time, so such a shot is skipped and the next one (50 ms later) is used
    f = frame
    while f is not None:
        if f.f_code.co_name == 'gc_callback':
            return
        f = f.f_back
    raise EpisodeHang()


class EpisodeCheck:
    """One property = a generator profile + monitors + an evaluation function.

    evaluate(runner, monitors) -> list of (signature, detail)
    classify(runner, monitors, episode) -> (nontrivial: bool, [class labels])
    """

    def __init__(self, property_id: str, strategy, make_monitors: Callable, evaluate: Callable, classify: Callable,
                 quick: int, thorough: int, use_suffix: bool = True, suffix_kwargs: Optional[dict] = None,
                 sample: Optional[Callable] = None, reduce_budget: int = 40, hang_is_finding: bool = False,
                 partial_on_hang: bool = False):
        self.hang_is_finding = hang_is_finding
        self.partial_on_hang = partial_on_hang
        self.hangs: List[str] = []
        self.stop_after_this: Optional[str] = None
        self.property_id = property_id
        self.strategy = strategy
        self.make_monitors = make_monitors
        self.evaluate = evaluate
        self.classify = classify
        self.quick = quick
        self.thorough = thorough
        self.use_suffix = use_suffix
        self.suffix_kwargs = suffix_kwargs or {}
        self.sample = sample or default_sample
        self.reduce_budget = reduce_budget

    # --- one episode
    def execute(self, episode: dict):
        """Runs the episode; returns (findings, nontrivial, classes, extra). Harness errors propagate."""
        from clustersim.episode import Runner
        import signal
        monitors = self.make_monitors(episode)
        runner = Runner(episode, monitors)
        old = signal.signal(signal.SIGALRM, _alarm)
        signal.setitimer(signal.ITIMER_REAL, EPISODE_WALL_LIMIT, 0.05)  # repeating: shots inside a gc callback are skipped
        try:
            try:
                runner.run_prefix()
                if self.use_suffix:
                    runner.run_suffix(**self.suffix_kwargs)
            except EpisodeHang as exc:
                signal.setitimer(signal.ITIMER_REAL, 0)
                sig, _ = exception_signature(exc)
                where = sig.split('@', 1)[1]
                note = f'episode exceeded {EPISODE_WALL_LIMIT:.0f}s of real time at virtual t={runner.world.now} in {where}'
                # what the monitors saw until then still counts (e.g. a state flip-flop is visible in the publications)
                try:
                    partial = list(self.evaluate(runner, monitors)) if self.partial_on_hang else []
                except Exception:
                    partial = []
                if self.hang_is_finding and where != '?':
                    # one bucket: the frame in which the alarm lands inside an endless loop changes from shot to shot
                    self.hang_findings = getattr(self, 'hang_findings', 0) + 1
                    if self.hang_findings >= 3:
                        self.stop_after_this = note      # each further one costs the wall limit again
                    return partial + [('hang:episode-exceeds-the-wall-limit', note)], True, ['hang']
                self.hangs.append(note)
                if len(self.hangs) >= 3:
                    self.stop_after_this = note
                return partial, False, ['inconclusive-hang']
            finally:
                signal.setitimer(signal.ITIMER_REAL, 0)
                signal.signal(signal.SIGALRM, old)
            if runner.world.harness_errors:
                raise RuntimeError(f'simulator error: {runner.world.harness_errors[:2]}')
            findings = list(self.evaluate(runner, monitors))
            nontrivial, classes = self.classify(runner, monitors, episode)
            return findings, nontrivial, classes
        finally:
            runner.close()

    def signatures(self, episode: dict) -> set:
        try:
            return {sig for sig, _ in self.execute(episode)[0]}
        except Exception:
            return set()

    # --- bounded delta debugging on the step list (quick tier: Hypothesis' shrinker is not used)
    def reduce(self, episode: dict, signature: str, budget: Optional[int] = None) -> dict:
        budget = self.reduce_budget if budget is None else budget
        best = copy.deepcopy(episode)
        tries = 0
        if signature.startswith('hang'):
            return best      # every attempt costs the wall limit: the episode is kept as found

        def still_fails(candidate) -> bool:
            nonlocal tries
            tries += 1
            return signature in self.signatures(candidate)

        # 1. truncate the tail
        steps = best['steps']
        n = len(steps)
        while n > 0 and tries < budget:
            half = n // 2
            cand = copy.deepcopy(best)
            cand['steps'] = steps[:half]
            if still_fails(cand):
                best, steps, n = cand, cand['steps'], half
            else:
                break
        # 2. blank whole step records (time alignment is preserved)
        for k in range(len(best['steps'])):
            if tries >= budget:
                break
            if best['steps'][k]:
                cand = copy.deepcopy(best)
                cand['steps'][k] = {}
                if still_fails(cand):
                    best = cand
        # 3. blank individual fields
        for k in range(len(best['steps'])):
            for fld in ('hold', 'order', 'inject', 'ops'):
                if tries >= budget:
                    break
                if fld in best['steps'][k]:
                    cand = copy.deepcopy(best)
                    del cand['steps'][k][fld]
                    if still_fails(cand):
                        best = cand
        # 4. drop behaviours / late boots
        for key in ('behaviours', 'late'):
            if tries >= budget:
                break
            if best['config'].get(key):
                cand = copy.deepcopy(best)
                cand['config'][key] = {}
                if still_fails(cand):
                    best = cand
        return best

    # --- shard
    def run_shard(self, ctx: ShardCtx) -> ShardResult:
        result = ShardResult()
        triage = Triage(ctx, result)
        n_examples = ctx.scale(self.quick, self.thorough)
        phases = [Phase.generate] if ctx.tier == 'quick' else [Phase.generate, Phase.shrink]
        check = self

        def go():
            @hypothesis.seed(ctx.hyp_seed + 7919 * len(result.findings))
            @settings(max_examples=n_examples, deadline=None, database=None, report_multiple_bugs=False,
                      phases=phases, suppress_health_check=list(HealthCheck), print_blob=False)
            @given(self.strategy)
            def test(episode):
                findings, nontrivial, classes = check.execute(episode)
                result.note(episode, nontrivial, sample=check.sample(episode) if nontrivial else None)
                for c in classes:
                    result.classes[c] += 1
                for sig, detail in findings:
                    triage.report(sig, detail, episode)
                if check.stop_after_this:
                    raise TooManyHangs(check.stop_after_this)
            test()

        try:
            triage.collect(go)
        except TooManyHangs as exc:
            result.inconclusive.append(f'shard stopped after 3 episodes hit the wall-clock watchdog: {exc}')
        result.inconclusive.extend(self.hangs[:3])
        if ctx.tier == 'quick':
            for f in result.findings:
                try:
                    f.case = self.reduce(f.case, f.signature)
                except Exception:
                    pass
        return result

    def replay(self, case) -> List[Finding]:
        findings, _, _ = self.execute(case)
        return [Finding(sig, detail, case) for sig, detail in findings]


def default_sample(episode: dict):
    cfg = episode['config']
    return {'n': cfg['n'], 'nodes': cfg['nodes'], 'options': cfg['options'],
            'apps': [{'name': a['name'], 'programs': [p['name'] for p in a['programs']]} for a in cfg.get('apps', [])],
            'warmup': episode.get('warmup', 0),
            'steps': [dict(s, t=k + 1) for k, s in enumerate(episode['steps']) if s.get('ops')][:8]}


def fault_classes(runner) -> List[str]:
    """Class labels from what the episode actually did (measured from the observation log)."""
    kinds = set()
    for rec in runner.world.log:
        if rec[1] in ('crash', 'cut', 'cut_oneway', 'heal', 'interleaved', 'dropped', 'swallowed', 'exit', 'boot_refused'):
            kinds.add(rec[1])
    for t, op in runner.op_log:
        if op[0] == 'restart':
            kinds.add('restart-quick' if int(op[2]) <= 8 else 'restart-slow')
        elif op[0] in ('direct_start', 'direct_stop', 'rpc', 'rpc_fuzz', 'group_ops', 'exit', 'end_sync', 'swallow',
                       'drop', 'drop_next'):
            kinds.add('op:' + op[0])
    return sorted(kinds)
