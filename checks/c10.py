"""C10 - Every start/stop job terminates in bounded ticks whatever gets lost (cluster simulator, bounded liveness)."""
import math

from hypothesis import strategies as st

from clustersim.episode import Profile, episode_st, STARTING
from clustersim.rulesref import RulesRef
from clustersim.world import Monitor
from checks.cluster import EpisodeCheck, fault_classes

PROPERTY_ID = 'C10'
LEVEL = 'exploration'
RULE = ('Hypothesis-generated episodes on the cluster simulator: 2-4 real instances, sequenced applications, startsecs / '
        'stopwaitsecs in {0,1,7,23}; behaviours never spawning (request swallowed by the target), repeated BACKOFF, spawn '
        'errors, slow / TERM-ignoring / unkillable children, PROCESS publications dropped, loss of the target instance at '
        'any point of the job, concurrent start / stop / restart requests. Oracle per instance and per Commander: the '
        'number of local ticks during which the instance reports itself in starting_jobs / stopping_jobs after its last '
        'request is at most B = (startretries+1) x (max(2, N//10) + ceil(secs/5) + 1) + inactivity_ticks + 3 (largest '
        'value over the programs; reported); after the quiet suffix no instance reports a job in progress. Non-trivial '
        '= a job that ends by timeout (forced state with an "event not received" reason) or by invalidation of its '
        'target; distinct = distinct episodes.')
ASSUMPTIONS = ['a wait_exit program that never exits is the documented exception: not generated here; a wait_exit program whose EXITED publication is lost looks the same to the requester (seen RUNNING, no time-out by design): exempted and counted',
               'B is measured in local ticks of the requesting instance (virtual clock)']
SHARDS = {'quick': 16, 'thorough': 16}


class P(Profile):
    n_min = 2
    n_max = 4
    apps_max = 2
    progs_max = 3
    startsecs = (0, 1, 7, 23)
    stopwaitsecs = (1, 7, 23)
    startretries = (0, 1, 2)
    fault_ops = ('crash', 'restart', 'cut', 'heal', 'heal_all', 'boot', 'crash_target', 'crash_target')
    proc_ops = ('exit', 'swallow', 'swallow', 'swallow', 'drop_next', 'drop_next', 'direct_stop')
    user_ops = ('rpc_start', 'rpc_start', 'rpc_start')
    op_rate = 0.4
    ops_per_step_max = 3
    steps_max = 60
    warmups = (0, 20, 30, 45)
    sv_failure = ('CONTINUE',)
    sync_sets = ('TIMEOUT', 'LIST,TIMEOUT')
    wait_exit = 0.1
    running_failure = ('CONTINUE', 'RESTART_PROCESS', 'STOP_APPLICATION', 'RESTART_APPLICATION')
    conciliation = ('USER', 'STOP', 'SENICIDE', 'RESTART')
    behaviours = True
    unkillable = True
    default_behaviours = ('run', 'run', 'unkillable', 'very_slow_stop', 'ignore_term')
    behaviours_max = 5
    sequences = (1, 1, 2, 0)
    auto_fence = (False,)


class JobBoundMonitor(Monitor):
    def __init__(self, config):
        self.config = config
        self.ref = RulesRef(config)
        n = config['n']
        inact = int(config['options'].get('inactivity_ticks', 2))
        margin = max(2, n // 10)
        self.bound = {'starting': 0, 'stopping': 0}
        for p in self.ref.progs.values():
            b_start = (p['startretries'] + 1) * (margin + math.ceil(p['startsecs'] / 5) + 1) + inact + 3
            b_stop = (margin + math.ceil(p['stopwaitsecs'] / 5) + 1) + inact + 3
            self.bound['starting'] = max(self.bound['starting'], b_start)
            self.bound['stopping'] = max(self.bound['stopping'], b_stop)
        self.last_request = {}      # (idx, inc, kind) -> local tick of the last request
        self.last_tick = {}
        self.findings = []
        self.flags = set()
        self.reported = set()

    def _counter(self, inst):
        return inst.supvisors.context.local_status.times.remote_sequence_counter

    def on_request(self, inst, identifier, rtype, body):
        if rtype.name == 'START_PROCESS':
            self.last_request[(inst.idx, inst.incarnation, 'starting')] = self._counter(inst)
        elif rtype.name == 'STOP_PROCESS':
            self.last_request[(inst.idx, inst.incarnation, 'stopping')] = self._counter(inst)

    def on_publication(self, inst, ptype, body):
        if ptype.name == 'PROCESS' and body.get('forced'):
            reason = str(body.get('spawnerr', ''))
            if 'not received in time' in reason:
                self.flags.add('job-ended-by-timeout')
                # the command ended (given up): whatever is reported in progress afterwards is another job, e.g. the
                # same stop planned again by a repeated conciliation that waits for the copy it still lists as STOPPING
                kind = 'stopping' if int(body['state']) == 0 else 'starting'
                self.last_request[(inst.idx, inst.incarnation, kind)] = self._counter(inst)
            if not reason:
                self.findings.append(('forced-state-without-reason', f't={inst.world.now} {inst.nick} forced '
                                      f"{body['group']}:{body['name']} to {body['state']} with an empty reason"))

    def after_instance_step(self, inst):
        if not inst.alive or inst.supvisors is None:
            return
        key = (inst.idx, inst.incarnation)
        if self.last_tick.get(key) == inst.ticks_sent:
            return
        self.last_tick[key] = inst.ticks_sent
        n = self._counter(inst)
        sm = inst.supvisors.state_modes.local_state_modes
        for kind, active in (('starting', sm.starting_jobs), ('stopping', sm.stopping_jobs)):
            if not active:
                continue
            last = self.last_request.get(key + (kind,))
            if last is None:
                continue
            waited = n - last
            if waited > self.bound[kind] and kind == 'starting' and self._waits_for_exit(inst):
                self.flags.add('wait-exit-exception')
                continue
            if waited > self.bound[kind] and key + (kind,) not in self.reported:
                self.reported.add(key + (kind,))
                jobs = self._describe(inst, kind)
                self.findings.append((f'job-not-ended:{kind}', f't={inst.world.now} {inst.nick} still reports {kind} jobs '
                                      f'{waited} local ticks after its last request (bound {self.bound[kind]}): {jobs}'))

    def _waits_for_exit(self, inst):
        """Documented exception: a start command of a wait_exit program that the requester sees RUNNING has no time-out
        (the program is expected to exit by itself; when its EXITED publication is lost the requester cannot know)."""
        wait_exit = {f"{a['name']}:{p['name']}" for a in self.config.get('apps', []) for p in a['programs']
                     if p.get('rules', {}).get('wait_exit')}
        for job in inst.supvisors.starter.current_jobs.values():
            for c in job.current_jobs:
                info = c.get_instance_info() or {}
                if c.process.namespec in wait_exit and info.get('state') == 20:
                    return True
        return False

    @staticmethod
    def _describe(inst, kind):
        cmdr = inst.supvisors.starter if kind == 'starting' else inst.supvisors.stopper
        out = []
        for app, job in cmdr.current_jobs.items():
            for c in job.current_jobs:
                info = c.get_instance_info() or {}
                out.append(f'{c.process.namespec}@{c.identifier}:{info.get("state")}')
            if job.planned_jobs:
                out.append(f'{app}:planned={sorted(job.planned_jobs)}')
        return out

    def finish(self, world):
        out = list(self.findings)
        for inst in world.instances:
            if inst.alive and inst.supvisors is not None and not inst.stopping:
                sm = inst.supvisors.state_modes.local_state_modes
                if (sm.starting_jobs or sm.stopping_jobs) and inst.supvisors.fsm.state.name not in ('FINAL',):
                    kind = 'starting' if sm.starting_jobs else 'stopping'
                    if kind == 'starting' and self._waits_for_exit(inst):
                        continue
                    # a job requested recently (e.g. a conciliation repeated because a STOPPED publication was lost and
                    # the copy stays listed) is a new job, still within its own bound: the property is per job
                    last = self.last_request.get((inst.idx, inst.incarnation, kind))
                    if last is not None and self._counter(inst) - last <= self.bound[kind]:
                        self.flags.add('recent-job-at-the-end')
                        continue
                    out.append((f'job-pending-after-suffix:{kind}', f'{inst.nick} still reports {kind} jobs after the quiet '
                                f'suffix: {self._describe(inst, kind)}'))
        return out


def make_monitors(episode):
    return [JobBoundMonitor(episode['config'])]


def evaluate(runner, monitors):
    seen = set()
    for sig, detail in monitors[0].finish(runner.world):
        if sig not in seen:
            seen.add(sig)
            yield sig, detail


def classify(runner, monitors, episode):
    mon = monitors[0]
    classes = fault_classes(runner) + sorted(mon.flags)
    lost_target = any(rec[1] == 'crash' for rec in runner.world.log) and bool(mon.last_request)
    if lost_target:
        classes.append('crash-with-jobs')
    return 'job-ended-by-timeout' in mon.flags or lost_target, classes


CHECK = EpisodeCheck(PROPERTY_ID, episode_st(P), make_monitors, evaluate, classify, quick=800, thorough=12000,
                     suffix_kwargs={'boot_dead': False})


def run_shard(ctx):
    return CHECK.run_shard(ctx)


def replay(case):
    return CHECK.replay(case)
