"""C19 - Start predictions are side-effect free and match a real start (settled clusters, metamorphic + differential)."""
from __future__ import annotations

import copy
import json

import hypothesis
from hypothesis import given, settings, strategies as st, Phase, HealthCheck

from vlib.core import ShardCtx, ShardResult, Triage, Finding
from vlib.diag import exception_signature
from checks.c14 import case_st, Settled, STRATEGIES
from clustersim.world import Monitor

PROPERTY_ID = 'C19'
LEVEL = 'exploration'
RULE = ('Hypothesis generates a cluster (2-6 real instances on 1-3 nodes), background processes with expected_loading '
        'placed on chosen instances, a target application (1-4 programs, loads, start sequences, the three distribution '
        'rules, identifiers rules at both levels, programs known by subsets of instances), a requester, a strategy and a '
        'list of prediction calls (test_start_application, test_start_process on one program or on "tgt:*", repeated). '
        'The cluster is run to OPERATION on the simulator; then (1) every prediction is bracketed by two observable '
        'snapshots of the requester (status XML-RPCs, per-instance process information, instance loads, jobs in '
        'progress, Starter / Stopper activity): they must be identical, no request may be emitted and nothing enqueued '
        'by any instance, and the same prediction repeated must return the same placement; (2) the real start_application '
        '/ start_process is then issued from the same situation with children that start normally and the target of '
        'every start request (or its absence) is compared with the prediction. Non-trivial = prediction placing >= 2 '
        'processes, or with a non-zero load on the chosen node, or a process that cannot be placed; distinct = cases.')
ASSUMPTIONS = ['every child starts normally (startsecs 0) during the real start',
               'the prediction is compared on the processes of the start sequence (start_sequence > 0) for '
               'test_start_application, and on the processes named for test_start_process']
SHARDS = {'quick': 16, 'thorough': 16}


@st.composite
def c19_case_st(draw):
    case = draw(case_st())
    case['strategy'] = draw(st.sampled_from(STRATEGIES))
    nprog = len(case['tprogs'])
    calls = []
    for _ in range(draw(st.integers(1, 4))):
        kind = draw(st.sampled_from(['app', 'app', 'proc', 'all']))
        calls.append([kind, draw(st.integers(0, nprog - 1)), draw(st.sampled_from(STRATEGIES))])
    case['calls'] = calls
    # a program that has been started with extra arguments and stopped again before the predictions
    case['pre_args'] = draw(st.one_of(st.none(), st.integers(0, nprog - 1)))
    case['real'] = draw(st.sampled_from(['app', 'app', 'proc', 'all']))
    case['real_k'] = draw(st.integers(0, nprog - 1))
    return case


class Wire(Monitor):
    def __init__(self):
        self.requests = []
        self.enqueued = 0

    def on_request(self, inst, identifier, rtype, body):
        self.requests.append((inst.idx, identifier, rtype.name, body))

    def on_enqueue(self, owner, proxy, message):
        self.enqueued += 1


CALLS = (('get_supvisors_state', ()), ('get_all_instances_state_modes', ()), ('get_all_instances_info', ()),
         ('get_all_applications_info', ()), ('get_all_process_info', ()), ('get_all_local_process_info', ()),
         ('get_conflicts', ()))


def snapshot(inst):
    from supervisor.xmlrpc import RPCError
    out = {}
    with inst.world.as_current(inst):
        for method, args in CALLS:
            try:
                out[method] = getattr(inst.supvisors_rpc, method)(*args)
            except RPCError as exc:
                out[method] = ('fault', exc.code)
        sv = inst.supvisors
        out['#jobs'] = [sv.starter.in_progress(), sv.stopper.in_progress(),
                        sorted(sv.starter.get_application_job_names()), sorted(sv.stopper.get_application_job_names())]
        out['#loads'] = {ident: status.get_load() for ident, status in sv.context.instances.items()}
        out['#info'] = {p.namespec: {'state': str(p.state), 'forced': str(p.forced_state),
                                     'forced_reason': p.forced_reason, 'extra_args': p.extra_args,
                                     'running': sorted(p.running_identifiers),
                                     'info_map': {k: {f: v.get(f) for f in ('state', 'statename', 'expected', 'spawnerr',
                                                                              'pid', 'disabled', 'extra_args', 'has_crashed',
                                                                              'event_time', 'start', 'stop', 'description')}
                                                  for k, v in p.info_map.items()}}
                        for a in sv.context.applications.values() for p in a.processes.values()}
        out['#apps'] = {a.application_name: [a.state.name, a.major_failure, a.minor_failure]
                        for a in sv.context.applications.values()}
    return json.loads(json.dumps(out, default=str, sort_keys=True))


def diff(a, b, path=''):
    if type(a) is not type(b):
        return [path]
    if isinstance(a, dict):
        out = []
        for k in sorted(set(a) | set(b)):
            out += [f'{path}/{k}'] if (k not in a or k not in b) else diff(a[k], b[k], f'{path}/{k}')
        return out
    if isinstance(a, list):
        if len(a) != len(b):
            return [path]
        out = []
        for i, (x, y) in enumerate(zip(a, b)):
            out += diff(x, y, f'{path}/{i}')
        return out
    return [] if a == b else [path]


def placement(prediction, s):
    """{process_name: target index or None} from a test_start_* answer."""
    out = {}
    for p in prediction:
        ids = p.get('running_identifiers') or []
        idx = None
        if ids:
            idx = next((i for i in range(s.case['n']) if s.ident(i) == ids[0]), -1)
        out[p['process_name']] = idx if len(ids) <= 1 else tuple(sorted(ids))
    return out


def call_args(kind, k, strategy):
    if kind == 'app':
        return 'test_start_application', 'start_application', (strategy, 'tgt')
    spec = f'tgt:t{k}' if kind == 'proc' else 'tgt:*'
    return 'test_start_process', 'start_process', (strategy, spec)


def check_case(case):
    s = Settled(case)
    classes = []
    try:
        if not s.ok:
            return ('harness:not-settled', ''), False, classes
        w = s.world
        wire = Wire()
        w.monitors.append(wire)
        req = w.instances[case['requester']]
        nontrivial = False
        predictions = {}
        if case.get('pre_args') is not None:
            spec = f"tgt:t{case['pre_args']}"
            out = req.call('supvisors', 'start_process', case['strategy'], spec, '-x 42', False)
            for _ in range(4):
                s.runner.step({})
            req.call('supvisors', 'stop_process', spec, False)
            for _ in range(6):
                s.runner.step({})
            classes.append(f'pre-args:{out[0]}')
        for kind, k, strategy in case['calls']:
            test_method, _real, args = call_args(kind, k, strategy)
            s1 = snapshot(req)
            s2 = snapshot(req)
            mask = set(diff(s1, s2))
            before_req, before_enq = len(wire.requests), wire.enqueued
            outcome = req.call('supvisors', test_method, *args)
            after = snapshot(req)
            classes.append(f'call:{test_method}:{outcome[0]}')
            changed = [p for p in diff(s2, after) if p not in mask]
            where = f'{req.nick}.{test_method}{args} -> {outcome[0]}'
            if len(wire.requests) != before_req:
                return ('prediction-emits-requests', f'{where}: {wire.requests[before_req:][:3]}'), True, classes
            if wire.enqueued != before_enq:
                return ('prediction-enqueues-messages', f'{where}: {wire.enqueued - before_enq} message(s) enqueued'), \
                    True, classes
            if changed:
                def get(obj, path):
                    for part in path.strip('/').split('/'):
                        obj = obj[part] if isinstance(obj, dict) else obj[int(part)]
                    return obj
                details = []
                for pth in changed[:3]:
                    try:
                        details.append(f'{pth}: {get(s2, pth)!r} -> {get(after, pth)!r}')
                    except Exception:
                        details.append(pth)
                top = changed[0].strip('/').split('/')[0]
                return (f'prediction-has-side-effect:{test_method}:{top}', f'{where}: {details}'), True, classes
            if outcome[0] == 'exc':
                return ('harness:prediction-raised', str(outcome[1])[:200]), False, classes   # C16's subject
            if outcome[0] == 'ok':
                place = placement(outcome[1], s)
                key = (test_method, args)
                if key in predictions and predictions[key] != place:
                    return ('repeated-prediction-differs', f'{where}: {predictions[key]} then {place}'), True, classes
                if key in predictions:
                    classes.append('repeated-prediction')
                predictions[key] = place
                placed = [v for v in place.values() if isinstance(v, int) and v >= 0]
                if len(placed) >= 2 or any(v is None for v in place.values()) \
                        or any(s.inst_load(v) > 0 for v in placed):
                    nontrivial = True
        # (2) the real start from the same situation
        kind, k, strategy = case['real'], case['real_k'], case['strategy']
        test_method, real_method, args = call_args(kind, k, strategy)
        outcome = req.call('supvisors', test_method, *args)
        if outcome[0] != 'ok':
            classes.append('real:prediction-refused')
            return None, nontrivial, classes
        predicted = placement(outcome[1], s)
        before_req = len(wire.requests)
        real = req.call('supvisors', real_method, *(args + (('',) if real_method == 'start_process' else ()) + (False,)))
        classes.append(f'real:{real_method}:{real[0]}')
        if real[0] == 'exc':
            # nothing but an RPCError may come out of the real request issued from a situation that was just predicted
            exc_type = str(real[1]).split('(', 1)[0]
            return (f'real-start-raised:{real_method}:{exc_type}', f'{req.nick}.{real_method}{args} raises {real[1]}; '
                    f'dist={case["dist"]} nodes={case["nodes"]} tprogs={case["tprogs"]}'), True, classes
        for _ in range(12):
            s.runner.step({})
        started = {}
        for (idx, identifier, rtype, body) in wire.requests[before_req:]:
            if rtype == 'START_PROCESS' and idx == req.idx:
                name = body[0].split(':', 1)[1]
                target = next((i for i in range(case['n']) if s.ident(i) == identifier), -1)
                if name in started and started[name] != target:
                    return ('real-start-requests-twice', f'{body[0]} requested on {started[name]} and {target}'), \
                        True, classes
                started[name] = target
        detail = (f'{req.nick}.{real_method}{args}: predicted {predicted}, real start requests {started}, answer {real[0]} '
                  f'{real[1:] if real[0] in ("fault", "exc") else ""}; dist={case["dist"]} nodes={case["nodes"]} '
                  f'loads={[s.inst_load(i) for i in range(case["n"])]} app_ids={case["app_ids"]} tprogs={case["tprogs"]}')
        if real[0] == 'fault':
            # a refused start (e.g. already started, no candidate at all): the prediction must not place anything
            if any(isinstance(v, int) and v >= 0 for v in predicted.values()):
                return ('prediction-places-but-start-refused', detail), True, classes
            return None, nontrivial, classes
        # diagnosis of a known root cause: for "group:*" the prediction plans every process and then triggers the job
        # (StarterModel.test_start_processes) whereas the real request triggers the job after each process
        # (RPCInterface.start_process): pending loads and, for non-distributed applications, the node selection differ
        diag = ':several-processes-in-one-start_process-request' if kind == 'all' and len(case['tprogs']) >= 2 else ''
        base_diag = diag

        def seq_of(pname):
            return case['tprogs'][int(pname[1:])]['seq']

        for name, target in predicted.items():
            got = started.get(name)
            diag = base_diag
            if not diag and any(isinstance(v, int) and v >= 0 and 0 < seq_of(q) < seq_of(name)
                                and case['tprogs'][int(q[1:])]['load'] > 0 for q, v in predicted.items()):
                # second known root cause: once a process is RUNNING in the model its load is counted nowhere (the
                # instance loads come from the real statuses), so the next start_sequence is placed without it
                diag = ':load-of-a-lower-start_sequence-not-counted'
            if isinstance(target, int) and target >= 0:
                if got is None:
                    return ('prediction-differs:not-started-for-real' + diag, f'{name}; {detail}'), True, classes
                if got != target:
                    return ('prediction-differs:other-target' + diag, f'{name}: predicted {target}, real {got}; {detail}'), \
                        True, classes
            elif target is None and got is not None:
                return ('prediction-differs:started-although-predicted-not' + diag, f'{name}; {detail}'), True, classes
        for name in started:
            if name not in predicted:
                return ('prediction-differs:process-missing-in-prediction' + diag, f'{name}; {detail}'), True, classes
        classes.append('real-start-compared')
        return None, nontrivial, classes
    except Exception as exc:   # harness or code under test: bucket, never a VIOLATION of this property by itself
        import traceback
        return ('harness:exception:' + str(exception_signature(exc)), traceback.format_exc()[-600:]), False, classes
    finally:
        s.close()


def run_shard(ctx: ShardCtx) -> ShardResult:
    result = ShardResult()
    triage = Triage(ctx, result)
    phases = [Phase.generate] if ctx.tier == 'quick' else [Phase.generate, Phase.shrink]

    def go():
        @hypothesis.seed(ctx.hyp_seed + 7919 * len(result.findings))
        @settings(max_examples=ctx.scale(600, 12000), deadline=None, database=None, report_multiple_bugs=False,
                  phases=phases, suppress_health_check=list(HealthCheck), print_blob=False)
        @given(c19_case_st())
        def test(case):
            bad, nontrivial, classes = check_case(copy.deepcopy(case))
            result.note(case, nontrivial, sample=case if nontrivial else None)
            for c in classes:
                result.classes[c] += 1
            result.classes['dist:' + case['dist']] += 1
            if bad:
                if bad[0].startswith('harness:'):
                    result.classes[bad[0].split(':exception:')[0]] += 1
                    return
                triage.report(bad[0], bad[1], case)
        test()

    triage.collect(go)
    return result


def replay(case) -> list:
    bad, _, _ = check_case(copy.deepcopy(case))
    return [Finding(bad[0], bad[1], case)] if bad and not bad[0].startswith('harness:') else []
