"""C05 - Conflicts are detected and conciliated exactly as the strategy says (cluster simulator, per-request oracle)."""
from hypothesis import strategies as st

from clustersim.episode import Profile, episode_st, CONCILIATION
from clustersim.rulesref import RulesRef
from clustersim.world import Monitor
from checks.cluster import EpisodeCheck, fault_classes

PROPERTY_ID = 'C05'
LEVEL = 'exploration'
RULE = ('Hypothesis-generated episodes on the cluster simulator: 2-4 real instances, managed and unmanaged applications, '
        'the six conciliation strategies; duplicates appear through direct Supervisor starts on a second / third instance '
        'and through cuts followed by heals (each side starts its own copy), several at once, interleaved with ticks, '
        'held / re-ordered deliveries, child exits and slow stops. Oracle: (detection) a Master that stays in OPERATION '
        'for more than 15 s of its own evaluations while its view lists a managed process as running on >= 2 instances '
        'and no job is in progress is a violation; entering CONCILIATION requires such a managed conflict in its view '
        '(unmanaged never triggers); (strategy) every stop request of the Master in CONCILIATION concerns a process in '
        'conflict in its view (SENICIDE / INFANTICIDE / STOP / RESTART), never its keeper - the copy whose true start is '
        'the most recent (SENICIDE) / the oldest (INFANTICIDE) beyond the uptime resolution -, never all the copies for '
        'SENICIDE / INFANTICIDE, every copy for STOP / RESTART / RUNNING_FAILURE, and nothing at all with USER; '
        '(completion, after a quiet healed suffix) no managed process runs on >= 2 instances and every live instance is '
        'back in OPERATION with a strategy other than USER, one copy survives with SENICIDE / INFANTICIDE / RESTART; with '
        'USER the duplicates are all still there and the state is CONCILIATION. Non-trivial = episode in which a '
        'Master entered CONCILIATION; distinct = distinct episodes.')
ASSUMPTIONS = ['no user stop / start request is generated: every stop request of a Master in CONCILIATION comes from the '
               'conciliation (or, with RUNNING_FAILURE, from the running failure strategy of the program)',
               'the keeper is judged with a tolerance of 12 s + startsecs on true start times (uptime is refreshed by '
               'ticks every 5 s and is 0 before RUNNING)',
               'running failure strategies of generated programs are CONTINUE except under the RUNNING_FAILURE conciliation']
SHARDS = {'quick': 16, 'thorough': 16}

ACTIVE = (10, 20, 30)
TOL = 12.0


class P(Profile):
    n_min = 2
    n_max = 4
    apps_max = 2
    progs_max = 3
    fault_ops = ('cut', 'heal_all', 'heal_all')
    proc_ops = ('direct_start', 'direct_start', 'direct_start', 'direct_start', 'exit')
    user_ops = ()
    op_rate = 0.3
    ops_per_step_max = 3
    steps_max = 60
    warmups = (30, 45, 45)
    sv_failure = ('CONTINUE',)
    sync_sets = ('TIMEOUT', 'LIST,TIMEOUT')
    conciliation = tuple(CONCILIATION)
    running_failure = ('CONTINUE',)
    starting_failure = ('CONTINUE',)
    auto_fence = (False,)
    managed = 0.75
    late_boot = 0.0
    sequences = (0, 1, 1, 2)
    startsecs = (0, 1, 6)
    stopwaitsecs = (1, 7)
    wait_exit = 0.0
    default_behaviours = ('run', 'run', 'very_slow_stop')
    loads = (0, 10, 20)


class PFailure(P):
    """RUNNING_FAILURE conciliation with every running failure strategy of the programs."""
    conciliation = ('RUNNING_FAILURE',)
    running_failure = ('CONTINUE', 'RESTART_PROCESS', 'STOP_APPLICATION', 'RESTART_APPLICATION')


CURRENT = {'monitor': None, 'installed': False}


def install_decision_hook():
    """Observation only: time-stamps the decisions (calls of conciliate_conflicts); the conflicts given by the code
    under test are ignored, the monitor reads the view of the instance by itself."""
    if CURRENT['installed']:
        return
    import supvisors.statemachine as sm
    original = sm.conciliate_conflicts

    def observed(supvisors, strategy, conflicts):
        mon = CURRENT['monitor']
        if mon is not None:
            try:
                mon.on_decision(supvisors)
            except Exception as exc:      # the observation never disturbs the code under test
                mon.flags.add('harness:decision-hook:' + type(exc).__name__)
        return original(supvisors, strategy, conflicts)
    sm.conciliate_conflicts = observed
    CURRENT['installed'] = True


class ConciliationMonitor(Monitor):
    def __init__(self, config):
        install_decision_hook()
        CURRENT['monitor'] = self
        self.aborted = {}
        self.decisions = []      # dict(time, M idx, M inc, namespec, view {identifier: true start}, targets set)
        self.config = config
        self.ref = RulesRef(config)
        self.strategy = config['options']['conciliation_strategy']
        self.findings = []
        self.flags = set()
        self.started = {}        # (idx, namespec) -> virtual time of the last STARTING published by the host
        self.idle_conflict = {}  # (M idx, M inc) -> consecutive seconds in OPERATION with an idle managed conflict
        self.prev_state = {}
        self.rounds = {}         # (M idx, M inc, time, namespec) -> {'view': set(identifiers), 'targets': set()}
        self.conciliated = {}    # namespec -> last time a stop was requested for it by a conciliation
        self.last_conflict = {}  # (M idx, M inc, namespec) -> last time the Master listed it in conflict

    # --- helpers
    def _managed(self, namespec):
        p = self.ref.progs.get(namespec)
        return p is not None and self.ref.apps[p['app']]['managed']

    @staticmethod
    def _view_conflicts(inst):
        """Managed conflicts as listed by the view of inst: {namespec: set(identifiers)} (harness reading of the data,
        not Context.conflicts)."""
        out = {}
        ctx = inst.supvisors.context
        for app in ctx.applications.values():
            for p in app.processes.values():
                ids = {ident for ident in p.running_identifiers
                       if int(p.info_map.get(ident, {}).get('state', 0)) in ACTIVE}
                if len(ids) >= 2:
                    out[p.namespec] = ids
        return out

    def on_decision(self, supvisors):
        from clustersim.world import W
        inst = W.by_supvisors(supvisors)
        w = inst.world
        for a in supvisors.context.applications.values():
            for p in a.processes.values():
                if len(p.running_identifiers) >= 2 and self._managed(p.namespec):
                    view = {}
                    for ident in p.running_identifiers:
                        peer = w.by_identifier(ident)
                        view[ident] = self.started.get((peer.idx, p.namespec)) if peer is not None else None
                    self.decisions.append({'time': w.now, 'm': (inst.idx, inst.incarnation), 'namespec': p.namespec,
                                           'view': view, 'targets': set(), 'closed': False})
                    self.flags.add('decision')

    def on_publication(self, inst, ptype, body):
        if ptype.name == 'PROCESS' and not body.get('forced') and int(body['state']) == 10 \
                and body.get('identifier') == inst.identifier:
            self.started[(inst.idx, f"{body['group']}:{body['name']}")] = inst.world.now
        if ptype.name == 'STATE':
            key = (inst.idx, inst.incarnation)
            state = body.get('fsm_statename')
            prev = self.prev_state.get(key)
            self.prev_state[key] = state
            if state not in ('OPERATION', 'CONCILIATION'):
                self.aborted[key] = inst.world.now     # jobs are aborted (ELECTION, ending states, ...)
            if state == 'CONCILIATION' and prev == 'OPERATION' and inst.supvisors.state_modes.is_master():
                self.flags.add('conciliation-entered')
                self.flags.add('strategy:' + self.strategy)
                # the statement only forbids conciliations triggered by unmanaged applications: a managed process
                # listed on several instances (even if some copies are already STOPPING) is accepted as a reason
                listed = {p.namespec: sorted(p.running_identifiers) for a in inst.supvisors.context.applications.values()
                          for p in a.processes.values() if len(p.running_identifiers) >= 2}
                if not any(self._managed(n) for n in listed):
                    self.findings.append(('conciliation-without-managed-conflict', f't={inst.world.now} Master {inst.nick} '
                                          f'enters CONCILIATION, processes listed on several instances in its view: {listed}'))

    def after_instance_step(self, inst):
        if not inst.alive or inst.supvisors is None:
            return
        sv = inst.supvisors
        key = (inst.idx, inst.incarnation)
        if sv.fsm.state.name == 'CONCILIATION' and sv.state_modes.is_master():
            active = {n: ids for n, ids in self._view_conflicts(inst).items() if self._managed(n)}
            for n in self._view_conflicts(inst):
                self.last_conflict[(inst.idx, inst.incarnation, n)] = inst.world.now
            listed = [p.namespec for a in sv.context.applications.values() for p in a.processes.values()
                      if len(p.running_identifiers) >= 2]
            idle = not sv.starter.in_progress() and not sv.stopper.in_progress()
            ckey = key + ('again',)
            lkey = key + ('leave',)
            if idle and active and self.strategy != 'USER':
                # re-conciliate until clean
                self.idle_conflict[ckey] = self.idle_conflict.get(ckey, 0) + 1
                if self.idle_conflict[ckey] == 16:
                    self.findings.append((f'{self.strategy}:conflict-remains', f't={inst.world.now} Master {inst.nick} has '
                                          f'been in CONCILIATION and idle for 15 s with managed conflicts {active}'))
            else:
                self.idle_conflict[ckey] = 0
            if idle and not listed:
                self.idle_conflict[lkey] = self.idle_conflict.get(lkey, 0) + 1
                if self.idle_conflict[lkey] == 16:
                    self.findings.append(('conciliation-not-left', f't={inst.world.now} Master {inst.nick} has been in '
                                          'CONCILIATION and idle for 15 s with no process listed on several instances'))
            else:
                self.idle_conflict[lkey] = 0
        if sv.fsm.state.name == 'OPERATION' and sv.state_modes.is_master():
            managed = {n: ids for n, ids in self._view_conflicts(inst).items() if self._managed(n)}
            for n in managed:
                self.last_conflict[(inst.idx, inst.incarnation, n)] = inst.world.now
            idle = not sv.starter.in_progress() and not sv.stopper.in_progress()
            if managed and idle:
                self.idle_conflict[key] = self.idle_conflict.get(key, 0) + 1
                if self.idle_conflict[key] == 16:
                    self.findings.append(('conflict-not-conciliated', f't={inst.world.now} Master {inst.nick} has been in '
                                          f'OPERATION and idle for 15 s with managed conflicts in its view: {managed}'))
                return
        self.idle_conflict[key] = 0

    # --- stop requests of a Master in CONCILIATION
    def on_request(self, inst, identifier, rtype, body):
        if rtype.name != 'STOP_PROCESS':
            return
        sv = inst.supvisors
        if sv.fsm.state.name != 'CONCILIATION' or not sv.state_modes.is_master():
            return
        w = inst.world
        namespec = body[0]
        where = f't={w.now} Master {inst.nick} ({self.strategy}) -> {identifier} stop {namespec}'
        self.flags.add('conciliation-stop')
        if self.strategy == 'USER':
            self.findings.append(('USER:stop-requested', where))
            return
        view = self._view_conflicts(inst)
        # one conciliation round = the stop requests of the Master for this process within 10 s (a job may be
        # re-planned by the running failure handler and send the requests of one decision a few seconds apart)
        rkey = (inst.idx, inst.incarnation, w.now, namespec)
        # copies that appeared in the last seconds were not there when the conciliation was decided (the stop job may
        # be deferred behind another job of the application): they belong to the next conciliation
        def old_enough(ident):
            peer = w.by_identifier(ident)
            return peer is None or w.now - self.started.get((peer.idx, namespec), -1000) > 12
        rnd = self.rounds.setdefault(rkey, {'view': {i for i in view.get(namespec, ()) if old_enough(i)}, 'targets': set(),
                                            'where': where, 'all': set(view.get(namespec, ()))})
        rnd['targets'].add(identifier)
        self.conciliated[namespec] = w.now
        for dec in self.decisions:
            if not dec['closed'] and dec['m'] == (inst.idx, inst.incarnation) and dec['namespec'] == namespec:
                dec['targets'].add(identifier)
        for n in view:
            self.last_conflict[(inst.idx, inst.incarnation, n)] = w.now
        recent = w.now - self.last_conflict.get((inst.idx, inst.incarnation, namespec), -1000) <= 30
        app, _, name = namespec.partition(':')
        a = sv.context.applications.get(app)
        listed = sorted(a.processes[name].running_identifiers) if a and name in a.processes else []
        # NOTE: a copy that is already STOPPING still counts for the Master (it conciliates again until it is gone)
        if self.strategy != 'RUNNING_FAILURE' and namespec not in view and len(listed) < 2 and not recent:
            self.findings.append((f'{self.strategy}:process-not-in-conflict-stopped', f'{where}: running on {listed} for '
                                  'the Master'))
            return
        if self.strategy in ('SENICIDE', 'INFANTICIDE') and namespec in view:
            # true start times of the copies listed by the Master
            starts = {}
            for ident in view[namespec]:
                peer = w.by_identifier(ident)
                if peer is not None and (peer.idx, namespec) in self.started:
                    starts[ident] = self.started[(peer.idx, namespec)]
            tol = TOL + self.ref.progs[namespec]['startsecs']
            # the uptimes known by the Master must reflect the true starts (a STARTING event lost during a cut leaves
            # the previous start date in its view: stale views are C12's subject)
            a2 = sv.context.applications[namespec.partition(':')[0]].processes[namespec.partition(':')[2]]
            stale = [i for i, t in starts.items()
                     if abs(float(a2.info_map[i].get('uptime') or 0) - (w.now - t)) > tol]
            if stale:
                self.flags.add('keeper-check-skipped:stale-uptime')
            elif identifier in starts and len(starts) == len(view[namespec]):
                others = [t for i, t in starts.items() if i != identifier]
                # diagnosis of the known root cause: the request comes from an earlier decision (on other copies)
                # whose stop commands were deferred behind another job of the application and are not re-validated
                fresh = any(d['m'] == (inst.idx, inst.incarnation) and d['namespec'] == namespec and d['time'] == w.now
                            and set(d['view']) == set(view[namespec]) for d in self.decisions)
                diag = '' if fresh else ':stops-of-an-earlier-decision-sent-late'
                if self.strategy == 'SENICIDE' and all(starts[identifier] > t + tol for t in others):
                    self.findings.append(('SENICIDE:most-recent-copy-stopped' + diag, f'{where}: true starts {starts}'))
                if self.strategy == 'INFANTICIDE' and all(starts[identifier] < t - tol for t in others):
                    self.findings.append(('INFANTICIDE:oldest-copy-stopped' + diag, f'{where}: true starts {starts}'))

    def after_step(self, world):
        # SENICIDE / INFANTICIDE: all the copies listed stopped at the same instant
        for rkey in [k for k in self.rounds if not self.rounds[k].get('closed')]:
            rnd = self.rounds[rkey]
            rnd['closed'] = True
            if self.strategy in ('SENICIDE', 'INFANTICIDE') and rnd['all'] and rnd['targets'] >= rnd['all']:
                # diagnosis: the stop commands of an earlier decision on another set of copies were deferred behind a job
                # of the application and are sent, without being re-validated, together with those of the new decision
                views = {frozenset(d['view']) for d in self.decisions
                         if d['m'] == rkey[:2] and d['namespec'] == rkey[3] and 0 <= rkey[2] - d['time'] <= 90}
                now_decided = any(d['m'] == rkey[:2] and d['namespec'] == rkey[3] and d['time'] == rkey[2]
                                  and frozenset(d['view']) == frozenset(rnd['all']) for d in self.decisions)
                diag = '' if now_decided and len(views) == 1 else ':stops-of-an-earlier-decision-sent-late'
                self.findings.append((f'{self.strategy}:every-copy-stopped' + diag, f'{rnd["where"]}: stop requested on '
                                      f'{sorted(rnd["targets"])}, all the copies the Master lists; decisions on '
                                      f'{[sorted(v) for v in views]}'))
        # decisions: judged once the Stopper of the Master is idle again, at least 20 s after the decision
        for dec in self.decisions:
            if dec['closed'] or world.now - dec['time'] < 20:
                continue
            master = world.instances[dec['m'][0]]
            if not master.alive or master.incarnation != dec['m'][1]:
                dec['closed'] = True
                continue
            if master.supvisors.stopper.in_progress() and world.now - dec['time'] < 90:
                continue
            dec['closed'] = True
            if self.aborted.get(dec['m'], -1) >= dec['time']:
                continue      # the stop jobs of the decision were aborted (ELECTION): conciliated again later
            # copies of the decision that were never asked to stop and are still the same run
            left = []
            for ident, start in dec['view'].items():
                peer = world.by_identifier(ident)
                if ident in dec['targets'] or peer is None or not peer.alive or start is None:
                    continue
                if peer.truth().get(dec['namespec']) in ACTIVE and self.started.get((peer.idx, dec['namespec'])) == start \
                        and master.supvisors.context.instances[ident].state.name == 'RUNNING' \
                        and world.reachable(master, peer):
                    left.append(ident)
            where = (f'decision of Master {master.nick} at t={dec["time"]} ({self.strategy}) on {dec["namespec"]} listed '
                     f'on {sorted(dec["view"])}: stop requested on {sorted(dec["targets"])}')
            if self.strategy in ('STOP', 'RESTART', 'RUNNING_FAILURE') and left:
                self.findings.append((f'{self.strategy}:not-every-copy-stopped', f'{where}; {left} never asked to stop and '
                                      f'still running at t={world.now}'))
            if self.strategy in ('SENICIDE', 'INFANTICIDE') and len(left) > 1:
                self.findings.append((f'{self.strategy}:several-copies-kept', f'{where}; {left} never asked to stop and '
                                      f'still running at t={world.now}'))

    def finish(self, world):
        return list(self.findings)


def make_monitors(episode):
    return [ConciliationMonitor(episode['config'])]


def evaluate(runner, monitors):
    seen = set()
    for sig, detail in monitors[0].finish(runner.world):
        if sig not in seen:
            seen.add(sig)
            yield sig, detail


def classify(runner, monitors, episode):
    mon = monitors[0]
    classes = fault_classes(runner) + sorted(mon.flags)
    return 'conciliation-entered' in mon.flags, classes


CHECK = EpisodeCheck(PROPERTY_ID, st.one_of(episode_st(P), episode_st(P), episode_st(PFailure)), make_monitors, evaluate,
                     classify, quick=800, thorough=12000, suffix_kwargs={'ticks': 14, 'boot_dead': False})


def run_shard(ctx):
    return CHECK.run_shard(ctx)


def replay(case):
    return CHECK.replay(case)
