"""C03 - Start sequences are honoured for applications and their processes (cluster simulator, per-request oracle)."""
from hypothesis import strategies as st

from clustersim.episode import Profile, episode_st
from clustersim.rulesref import RulesRef
from clustersim.world import Monitor
from checks.cluster import EpisodeCheck, fault_classes

PROPERTY_ID = 'C03'
LEVEL = 'exploration'
RULE = ('Hypothesis-generated episodes on the cluster simulator: 2-4 real instances, 1-3 applications x 1-4 programs, '
        'start_sequence 0-3 at both levels, wait_exit, required, the three starting failure strategies, startsecs 0-12, '
        'behaviour scripts per attempt (runs, exits before startsecs -> BACKOFF .. FATAL, spawn error, exits after '
        'RUNNING, request swallowed by the target), crash / restart of any instance at any time; triggers: automatic '
        'distribution, restart_sequence, start / restart / stop_application on any instance. Oracle at the creation of '
        'every start request (emitter X, process p of application A), from the requests seen on the wire and the TRUE '
        'Supervisor states of the targets: every process of A with a lower positive start_sequence that X requested is '
        'resolved (seen RUNNING since the request - EXITED for wait_exit -, or failed / stopped in truth after the '
        'request arrived, or given up by X with a forced state, or its target is lost); the sequence numbers requested '
        'inside one application job never decrease; X holds no unresolved request for an application of lower positive '
        'sequence, and in DISTRIBUTION no job of such an application; start_sequence 0 processes are never requested '
        'and applications of sequence 0 only after a user request; after a required process is known to have failed '
        '(truth FATAL without having run, or forced FATAL by X) under ABORT / STOP no higher sequence of the job is '
        'requested, and under STOP the processes started by the job are stopped in the end. Non-trivial = a job that '
        'requested >= 2 positive levels, or a required failure inside a job, or two application levels in one plan; '
        'distinct = distinct episodes.')
ASSUMPTIONS = ['generated triggers are application-level only (no start_process / restart_process, no RESTART_PROCESS '
               'running failure strategy): every start request belongs to an application job',
               'truth is sampled after every simulator step (1 s): a process that passes through RUNNING and leaves it '
               'within one step is resolved by its later state (EXITED / FATAL / STOPPED)',
               'autorestart=false in generated programs: a process that exits is not started again by Supervisor itself']
SHARDS = {'quick': 16, 'thorough': 16}

STOPPED, STARTING, RUNNING, BACKOFF, STOPPING, EXITED, FATAL, UNKNOWN = 0, 10, 20, 30, 40, 100, 200, 1000
WORKING = ('DISTRIBUTION', 'OPERATION', 'CONCILIATION')


class P(Profile):
    n_min = 2
    n_max = 4
    apps_max = 3
    progs_max = 4
    sequences = (0, 1, 1, 2, 3)
    wait_exit = 0.2
    startsecs = (0, 1, 6, 12, 12)
    startretries = (0, 1)
    fault_ops = ('crash', 'restart', 'crash_target', 'crash_target', 'crash_target', 'crash_target', 'crash_master', 'boot')
    proc_ops = ('exit', 'swallow', 'swallow')
    user_ops = ('rpc_app', 'rpc_app', 'rpc_app')
    op_rate = 0.3
    ops_per_step_max = 2
    steps_max = 60
    warmups = (0, 30, 45)
    sv_failure = ('CONTINUE',)
    sync_sets = ('TIMEOUT', 'LIST,TIMEOUT')
    conciliation = ('USER',)
    running_failure = ('CONTINUE', 'STOP_APPLICATION', 'RESTART_APPLICATION')
    behaviours_max = 6
    behaviour_everywhere = 0.6
    behaviour_kinds = ('run', 'early_exit', 'early_exit', 'exit_ok', 'exit_bad', 'spawn_error', 'spawn_error', 'slow_stop')
    auto_fence = (False,)
    managed = 0.9
    late_boot = 0.35
    loads = (0, 10, 40)


class Job:
    """What the harness knows of one application start job of an emitter (identity = the job object of the Starter)."""

    def __init__(self, ref, app, t):
        self.ref = ref          # strong reference: the id cannot be reused
        self.app = app
        self.begin = t
        self.max_seq = 0
        self.levels = set()
        self.requested = {}     # namespec -> pending record
        self.failed = None      # (namespec, seq, strategy, time, why)
        self.ended = False
        self.end = None


class StartOrderMonitor(Monitor):
    def __init__(self, config):
        self.config = config
        self.ref = RulesRef(config)
        self.findings = []
        self.flags = set()
        self.pending = {}        # (X idx, X inc) -> {namespec: record}
        self.jobs = {}           # (X idx, X inc, id(job)) -> Job
        self.user_started = set()
        self.forced = {}         # (X idx, X inc, namespec) -> time of the last forced FATAL published by X
        self.stops = {}          # (X idx, X inc, namespec) -> time of the last stop request emitted by X
        self.lost_seen = {}      # (X idx, X inc, identifier) -> last time X saw that instance leave RUNNING
        self.left_working = {}   # (X idx, X inc) -> last time X was seen out of the working states

    # --- observations
    def on_user_rpc_begin(self, inst, name, args):
        method = name.split('.')[-1]
        try:
            if method in ('start_application', 'restart_application'):
                self.user_started.add(args[1])
        except (IndexError, TypeError):
            pass

    def on_instance_state(self, inst, identifier, new_state):
        if getattr(new_state, 'name', str(new_state)) != 'RUNNING':
            self.lost_seen[(inst.idx, inst.incarnation, identifier)] = inst.world.now

    def on_publication(self, inst, ptype, body):
        if ptype.name == 'STATE' and body.get('fsm_statename') not in WORKING:
            # jobs are aborted when the instance leaves the working states (ELECTION, ending states, ...)
            self.left_working[(inst.idx, inst.incarnation)] = inst.world.now
        if ptype.name == 'PROCESS' and not body.get('forced') and body.get('identifier') == inst.identifier:
            # exact outcome of the requests: the target publishes every state change of its own processes (the truth
            # sampled once per second can miss a state that lasts less than a step)
            namespec = f"{body['group']}:{body['name']}"
            state = int(body['state'])
            for recs in self.pending.values():
                rec = recs.get(namespec)
                if rec is None or rec['resolved'] or rec['target'] != (inst.idx, inst.incarnation) \
                        or not rec['arrived'] or rec['arrived'] == 'swallowed':
                    continue
                if state == RUNNING:
                    rec['ran'] = True
                    if not self.ref.progs[namespec]['wait_exit']:
                        rec['resolved'] = 'running'
                elif state == EXITED:
                    rec['resolved'] = 'exited'
                elif state == FATAL:
                    rec['resolved'] = 'fatal' if not rec['ran'] else 'fatal after running'
                elif state in (STOPPED, STOPPING):
                    rec['resolved'] = 'stopped'
        if ptype.name == 'PROCESS' and body.get('forced') and int(body['state']) == FATAL:
            namespec = f"{body['group']}:{body['name']}"
            self.forced[(inst.idx, inst.incarnation, namespec)] = inst.world.now
            self._note_failure(inst, namespec, 'forced FATAL published by the emitter')

    def on_rpc_begin(self, src, dst, name, args):
        # the request reaches its target (events may come back to the emitter before the call returns)
        self.on_rpc(src, dst, name, args, 'executing', None)

    def on_rpc(self, src, dst, name, args, outcome, result):
        if name != 'supvisors.start_args' or dst is None:
            return
        rec = self.pending.get((src.idx, src.incarnation), {}).get(args[0])
        if rec is not None and rec['target'] == (dst.idx, dst.incarnation) and rec['arrived'] in ('', 'executing'):
            rec['arrived'] = outcome
            rec['arrived_at'] = src.world.now

    def after_step(self, world):
        for inst in world.instances:
            if inst.alive and inst.supvisors is not None and inst.supvisors.fsm.state.name not in WORKING:
                self.left_working[(inst.idx, inst.incarnation)] = world.now
        for key, recs in self.pending.items():
            for namespec, rec in recs.items():
                if not rec['resolved']:
                    self._poll(world, key, namespec, rec)

    # --- resolution of a request
    def _poll(self, world, key, namespec, rec):
        """Sticky evaluation of the outcome of a request from the truth on its target."""
        tidx, tinc = rec['target']
        target = world.instances[tidx]
        if not target.alive or target.incarnation != tinc:
            rec['target_dead'] = True     # resolved when the emitter knows it (see _resolved)
            return
        state = target.truth().get(namespec)
        p = self.ref.progs[namespec]
        if not rec['arrived'] or rec['arrived'] == 'swallowed':
            # in flight, or never acted upon (only a give-up of the emitter resolves it) - unless the process is RUNNING
            # anyway (started by the job of another instance): it has finished starting
            if state == RUNNING and not p['wait_exit']:
                rec['ran'] = True
                rec['resolved'] = 'running (not started by this request)'
            return
        if state == RUNNING:
            rec['ran'] = True
            if not p['wait_exit']:
                rec['resolved'] = 'running'
        elif state == EXITED:
            rec['resolved'] = 'exited'
        elif state == FATAL:
            rec['resolved'] = 'fatal' if not rec['ran'] else 'fatal after running'
        elif state in (STOPPED, STOPPING, UNKNOWN, None):
            rec['resolved'] = 'stopped'
        # STARTING / BACKOFF: still starting

    def _resolved(self, inst, namespec, rec):
        """Resolution as far as the emitter inst may know when it emits another request."""
        if rec['resolved']:
            return rec['resolved']
        w = inst.world
        self._poll(w, (inst.idx, inst.incarnation), namespec, rec)
        if rec['resolved']:
            return rec['resolved']
        target = w.instances[rec['target'][0]]
        status = inst.supvisors.context.instances.get(target.identifier)
        if inst.idx == target.idx and rec.get('target_dead'):
            rec['resolved'] = 'emitter restarted'
            return rec['resolved']
        lost_at = self.lost_seen.get((inst.idx, inst.incarnation, target.identifier), -1)
        if status is None or status.state.name != 'RUNNING' or lost_at >= rec['time']:
            rec['resolved'] = 'target lost for the emitter'
            if not rec['ran']:
                self.flags.add('target-lost-while-starting')
                # the request was still pending for the emitter: a start failure (host lost)
                self._note_failure(inst, namespec, f'{target.nick} lost for the emitter while the process was starting')
            return rec['resolved']
        # given up: forced state published, or already applied to its own view (the local update precedes the publication)
        if self.forced.get((inst.idx, inst.incarnation, namespec), -1) >= rec['time']:
            rec['resolved'] = 'given up'
            return rec['resolved']
        app, _, name = namespec.partition(':')
        a = inst.supvisors.context.applications.get(app)
        if a is not None and name in a.processes and a.processes[name].forced_state is not None:
            rec['resolved'] = 'given up'
            self._note_failure(inst, namespec, 'forced state in the view of the emitter')
            return rec['resolved']
        return ''

    def _note_failure(self, inst, namespec, why):
        """A required process of a job of inst is known by inst to have failed."""
        p = self.ref.progs.get(namespec)
        if p is None or not p['required'] or p['start_sequence'] <= 0:
            return
        for (idx, inc, _jid), job in self.jobs.items():
            if idx == inst.idx and inc == inst.incarnation and job.app == p['app'] and job.failed is None \
                    and not job.ended:
                # forced FATAL "No resource available" concerns a process of the job even if it was never requested
                job.failed = (namespec, p['start_sequence'], p['starting_failure_strategy'], inst.world.now, why)
                self.flags.add('required-failure-in-job')
                self.flags.add('required-failure:' + p['starting_failure_strategy'])

    # --- the oracle
    def on_request(self, inst, identifier, rtype, body):
        w = inst.world
        if rtype.name == 'STOP_PROCESS':
            self.stops[(inst.idx, inst.incarnation, body[0])] = w.now
            return
        if rtype.name != 'START_PROCESS':
            return
        namespec = body[0]
        p = self.ref.progs.get(namespec)
        if p is None:
            return
        app = self.ref.apps[p['app']]
        key = (inst.idx, inst.incarnation)
        state = inst.supvisors.fsm.state.name
        where = f't={w.now} {inst.nick} ({state}) -> {identifier} start {namespec}'
        target = w.by_identifier(identifier)
        # sequence 0
        if p['start_sequence'] == 0:
            self.findings.append(('sequence-0-process-started', f'{where}: its start_sequence is 0'))
        if app['start_sequence'] == 0 and app['name'] not in self.user_started:
            self.findings.append(('sequence-0-application-started', f'{where}: the start_sequence of {app["name"]} is 0 and '
                                  'no user ever requested its start'))
        # job identity
        job_obj = inst.supvisors.starter.get_application_job(app['name'])
        job = None
        new_job = False
        if job_obj is not None:
            jkey = (inst.idx, inst.incarnation, id(job_obj))
            job = self.jobs.get(jkey)
            if job is None or job.ref is not job_obj:
                job = self.jobs[jkey] = Job(job_obj, app['name'], w.now)
                new_job = True
        pend = self.pending.setdefault(key, {})
        # (a) process level
        for q in app['programs']:
            if q['namespec'] == namespec or not 0 < q['start_sequence'] < p['start_sequence']:
                continue
            rec = pend.get(q['namespec'])
            if rec is not None and not self._resolved(inst, q['namespec'], rec):
                tq = w.instances[rec['target'][0]]
                self.findings.append(('start-order:process', f'{where} (start_sequence {p["start_sequence"]}) while '
                                      f'{q["namespec"]} (start_sequence {q["start_sequence"]}{", wait_exit" if q["wait_exit"] else ""}) '
                                      f'requested at t={rec["time"]} on {tq.nick} has not finished starting (truth '
                                      f'{tq.truth().get(q["namespec"])}, request {rec["arrived"] or "in flight"})'))
        # (a2) whoever requested it: a lower sequence that is STARTING / BACKOFF in truth AND for the emitter
        a_view = inst.supvisors.context.applications.get(app['name'])
        for q in app['programs']:
            if q['namespec'] == namespec or not 0 < q['start_sequence'] < p['start_sequence'] or a_view is None:
                continue
            pv = a_view.processes.get(q['name'])
            if pv is None:
                continue
            if not q['wait_exit'] and any(o.alive and o.truth().get(q['namespec']) == RUNNING for o in w.instances):
                continue      # it has finished starting: another copy (concurrent job of another instance) is RUNNING
            for peer in w.instances:
                if not peer.alive or peer.truth().get(q['namespec']) not in (STARTING, BACKOFF):
                    continue
                # not the copy that a live job of ANOTHER instance is starting (two users starting the application on two
                # instances): the emitter is bound by its own attempts and by what nobody drives any more (aborted jobs)
                concurrent = False
                for ykey, recs in self.pending.items():
                    yrec = recs.get(q['namespec'])
                    if yrec is None or ykey == key or yrec['target'] != (peer.idx, peer.incarnation):
                        continue
                    yinst = w.instances[ykey[0]]
                    if yinst.alive and yinst.incarnation == ykey[1] and self.left_working.get(ykey, -1) < yrec['time']:
                        concurrent = True
                if concurrent:
                    continue
                info = pv.info_map.get(peer.identifier)
                status = inst.supvisors.context.instances.get(peer.identifier)
                if info is not None and int(info.get('state', 0)) in (STARTING, BACKOFF) and status is not None \
                        and status.state.name == 'RUNNING' and pv.forced_state is None \
                        and not any(f[0] == 'start-order:process' for f in self.findings[-3:]):
                    self.findings.append(('start-order:process', f'{where} (start_sequence {p["start_sequence"]}) while '
                                          f'{q["namespec"]} (start_sequence {q["start_sequence"]}) is still '
                                          f'{"STARTING" if info["state"] == STARTING else "BACKOFF"} on {peer.nick}, in truth '
                                          f'and for {inst.nick}'))
        if job is not None:
            if 0 < p['start_sequence'] < job.max_seq:
                self.findings.append(('start-order:sequence-decreases-in-job', f'{where} (start_sequence '
                                      f'{p["start_sequence"]}) after start_sequence {job.max_seq} was requested in the '
                                      'same application job'))
            job.max_seq = max(job.max_seq, p['start_sequence'])
            job.levels.add(p['start_sequence'])
            if len({s for s in job.levels if s > 0}) >= 2:
                self.flags.add('two-process-levels-in-job')
            # (d) starting failure strategy
            if job.failed is not None and job.failed[2] in ('ABORT', 'STOP') and p['start_sequence'] > job.failed[1]:
                self.findings.append((f'request-after-required-failure:{job.failed[2]}', f'{where} (start_sequence '
                                      f'{p["start_sequence"]}) although required {job.failed[0]} (start_sequence '
                                      f'{job.failed[1]}, starting_failure_strategy {job.failed[2]}) failed at '
                                      f't={job.failed[3]} ({job.failed[4]}) in the same job'))
        # (c) application level
        names = inst.supvisors.starter.get_application_job_names()
        starter = inst.supvisors.starter
        live_jobs = {id(j) for j in list(starter.current_jobs.values())}
        for planned in starter.planned_jobs.values():
            live_jobs.update(id(j) for j in planned.values())
        for other in self.ref.apps.values():
            if other['name'] == app['name'] or not 0 < other['start_sequence'] < app['start_sequence']:
                continue
            for q in other['programs']:
                rec = pend.get(q['namespec'])
                # NOTE: not the requests made before the emitter last left the working states: its jobs were aborted
                #       (ELECTION, ending), the applications are planned again and a later trigger is not bound by them
                if rec is not None and self.left_working.get(key, -1) >= rec['time']:
                    continue
                if rec is not None and q['start_sequence'] > 0 and not self._resolved(inst, q['namespec'], rec):
                    self.findings.append(('start-order:application', f'{where} (application start_sequence '
                                          f'{app["start_sequence"]}) while {q["namespec"]} of application {other["name"]} '
                                          f'(start_sequence {other["start_sequence"]}) requested at t={rec["time"]} has '
                                          'not finished starting'))
            # NOTE: only at the first request of the job: a job of lower sequence planned later (restart of an
            #       application by the running failure handler) legitimately waits for the jobs in progress
            if state == 'DISTRIBUTION' and new_job and other['name'] in names:
                self.findings.append(('start-order:application:lower-sequence-still-planned', f'{where} (application '
                                      f'start_sequence {app["start_sequence"]}) while the Starter still holds a job for '
                                      f'{other["name"]} (start_sequence {other["start_sequence"]})'))
            if other['name'] in self.started_apps.get(key, ()):
                self.flags.add('two-application-levels')
        self.started_apps.setdefault(key, set()).add(app['name'])
        # register the request
        rec = {'time': w.now, 'target': (target.idx, target.incarnation) if target is not None else (-1, -1),
               'arrived': '', 'ran': False, 'resolved': '' if target is not None else 'unknown target'}
        pend[namespec] = rec
        rec['job'] = job
        if job is not None:
            job.requested[namespec] = rec
        self.requests += 1

    started_apps = None
    requests = 0

    def after_instance_step(self, inst):
        if not inst.alive or inst.supvisors is None:
            return
        starter = inst.supvisors.starter
        live = {id(j) for j in list(starter.current_jobs.values())}
        for planned in starter.planned_jobs.values():
            live.update(id(j) for j in planned.values())
        for (idx, inc, jid), job in self.jobs.items():
            if idx == inst.idx and inc == inst.incarnation and not job.ended:
                if jid not in live:
                    job.ended = True
                    job.end = inst.world.now
                else:
                    # what the emitter knows: truth FATAL of a required process that never ran since the request
                    for namespec, rec in job.requested.items():
                        if rec['resolved'] == 'fatal' and not rec.get('noted'):
                            q = self.ref.progs[namespec]
                            view = inst.supvisors.context.applications[q['app']].processes[q['name']]
                            if view.state == FATAL:
                                rec['noted'] = True
                                self._note_failure(inst, namespec, 'FATAL in truth and for the emitter, never RUNNING')

    def finish(self, world):
        out = list(self.findings)
        # STOP strategy: what the job started is stopped in the end
        for (idx, inc, _jid), job in self.jobs.items():
            if job.failed is None or job.failed[2] != 'STOP':
                continue
            inst = world.instances[idx]
            if not inst.alive or inst.incarnation != inc:
                continue
            if self.left_working.get((idx, inc), -1) >= job.failed[3] or not job.ended:
                continue
            if world.now - job.end < 30:
                continue
            for namespec, rec in job.requested.items():
                target = world.instances[rec['target'][0]]
                if not target.alive or target.incarnation != rec['target'][1]:
                    continue
                if rec['time'] > job.failed[3]:
                    continue
                # restarted by somebody else since then ?
                later = [r for (k, recs) in self.pending.items() for n, r in recs.items()
                         if n == namespec and r['time'] > job.failed[3]]
                if later:
                    continue
                if target.truth().get(namespec) in (STARTING, RUNNING, BACKOFF) \
                        and self.stops.get((idx, inc, namespec), -1) < job.failed[3]:
                    out.append(('stop-strategy:not-applied', f'{inst.nick}: required {job.failed[0]} failed at '
                                f't={job.failed[3]} with strategy STOP in the job of {job.app} begun at t={job.begin}; '
                                f'{namespec} started by that job is still active on {target.nick} at the end '
                                f'(t={world.now}) and {inst.nick} never asked to stop it'))
                    break
        return out


def make_monitors(episode):
    mon = StartOrderMonitor(episode['config'])
    mon.started_apps = {}
    return [mon]


def evaluate(runner, monitors):
    seen = set()
    for sig, detail in monitors[0].finish(runner.world):
        if sig not in seen:
            seen.add(sig)
            yield sig, detail


def classify(runner, monitors, episode):
    mon = monitors[0]
    classes = fault_classes(runner) + sorted(mon.flags)
    if mon.requests:
        classes.append('start-requests')
    nontrivial = bool(mon.flags & {'two-process-levels-in-job', 'required-failure-in-job', 'two-application-levels'})
    return nontrivial, classes


CHECK = EpisodeCheck(PROPERTY_ID, episode_st(P), make_monitors, evaluate, classify, quick=1400, thorough=16000,
                     suffix_kwargs={'ticks': 10, 'boot_dead': False})


def run_shard(ctx):
    return CHECK.run_shard(ctx)


def replay(case):
    return CHECK.replay(case)
