"""C14 - Placement obeys the starting strategy and the distribution rule (differential on settled clusters)."""
from __future__ import annotations

import hypothesis
from hypothesis import given, settings, strategies as st, Phase, HealthCheck

from vlib.core import ShardCtx, ShardResult, Triage, Finding
from vlib.diag import exception_signature

PROPERTY_ID = 'C14'
LEVEL = 'exploration'
RULE = ('Hypothesis generates a cluster (2-6 real instances on 1-3 nodes, several instances per node), background '
        'processes with expected_loading started on chosen instances through their Supervisors (instance and node '
        'loads), optionally instance restarts before the query (repeated handshakes), a target application (1-4 '
        'programs, loads, distribution ALL_INSTANCES / SINGLE_INSTANCE / SINGLE_NODE, application identifiers rule, '
        'programs known by subsets of the instances); the cluster is run to OPERATION on the simulator, then (1) the '
        'real get_supvisors_instance is called on a requester with a generated ordered candidate list, load and pending '
        'request map for each of the six strategies and compared with a reference computed from the simulator topology '
        'and the true placement; (2) test_start_application is asked for the target application and the predicted '
        'placement is checked against the distribution rule (one instance able to carry the whole start sequence / '
        'instances of one node each knowing its program, application rule applied, 100 % node cap). Non-trivial = >= 2 '
        'eligible candidates with different keys, or pending load, or a multi-instance node; distinct = distinct cases.')
ASSUMPTIONS = ['ties are accepted (any candidate with the optimal key)',
               'for SINGLE_NODE the node choice is checked by validity (single node, knowledge, rule, cap), not by '
               'strategy optimality']
SHARDS = {'quick': 16, 'thorough': 16}

STRATEGIES = ['CONFIG', 'LESS_LOADED', 'MOST_LOADED', 'LOCAL', 'LESS_LOADED_NODE', 'MOST_LOADED_NODE']
LOADS = [0, 5, 10, 20, 30, 40, 60]


@st.composite
def case_st(draw):
    n = draw(st.integers(2, 6))
    nnodes = draw(st.integers(1, min(3, n)))
    nodes = [draw(st.integers(0, nnodes - 1)) for _ in range(n)]
    # make node indexes dense
    order = sorted(set(nodes))
    nodes = [order.index(x) for x in nodes]
    # background placement: per instance a list of loads (each is a distinct program started there)
    bg = [draw(st.lists(st.sampled_from(LOADS[1:]), min_size=0, max_size=2)) for _ in range(n)]
    dist = draw(st.sampled_from(['ALL_INSTANCES', 'SINGLE_INSTANCE', 'SINGLE_NODE']))
    nprog = draw(st.integers(1, 4))
    tprogs = []
    for k in range(nprog):
        known = None
        if draw(st.integers(0, 9)) < 3:
            known = sorted(draw(st.lists(st.integers(0, n - 1), min_size=1, max_size=n, unique=True)))
        ids = None
        if draw(st.integers(0, 9)) < 3:
            ids = sorted(draw(st.lists(st.integers(0, n - 1), min_size=1, max_size=n, unique=True)))
        tprogs.append({'load': draw(st.sampled_from(LOADS)), 'seq': draw(st.sampled_from([1, 1, 2, 0])), 'known': known,
                       'ids': ids})
    app_ids = None
    if draw(st.integers(0, 9)) < 4:
        app_ids = draw(st.lists(st.integers(0, n - 1), min_size=1, max_size=n, unique=True))   # ordered (CONFIG order)
    restarts = draw(st.lists(st.integers(1, n - 1), min_size=0, max_size=2)) if n > 1 else []
    requester = draw(st.integers(0, n - 1))
    queries = []
    for _ in range(draw(st.integers(1, 3))):
        cands = draw(st.lists(st.integers(0, n - 1), min_size=1, max_size=n, unique=True))
        req = {str(i): draw(st.sampled_from(LOADS)) for i in
               draw(st.lists(st.integers(0, n - 1), min_size=0, max_size=3, unique=True))}
        queries.append({'candidates': cands, 'load': draw(st.sampled_from(LOADS + [100, 80])), 'requests': req})
    return {'n': n, 'nodes': nodes, 'bg': bg, 'dist': dist, 'tprogs': tprogs, 'app_ids': app_ids, 'restarts': restarts,
            'requester': requester, 'queries': queries, 'app_strategy': draw(st.sampled_from(STRATEGIES))}


def build_config(case):
    n = case['n']
    apps = []
    bg_progs = []
    for i, loads in enumerate(case['bg']):
        for k, load in enumerate(loads):
            bg_progs.append({'name': f'b{i}x{k}', 'rules': {'expected_loading': load, 'start_sequence': 0},
                             'sup': {'startsecs': 0, 'stopwaitsecs': 1, 'startretries': 0, 'autorestart': 'false'},
                             'known_by': None})
    if bg_progs:
        apps.append({'name': 'bg', 'managed': True, 'rules': {'start_sequence': 0}, 'programs': bg_progs})
    tprogs = []
    for k, tp in enumerate(case['tprogs']):
        rules = {'expected_loading': tp['load'], 'start_sequence': tp['seq']}
        if tp['ids'] is not None:
            rules['identifiers'] = tp['ids']
        tprogs.append({'name': f't{k}', 'rules': rules,
                       'sup': {'startsecs': 0, 'stopwaitsecs': 1, 'startretries': 0, 'autorestart': 'false'},
                       'known_by': tp['known']})
    arules = {'start_sequence': 0, 'starting_strategy': case['app_strategy']}
    if case['dist'] != 'ALL_INSTANCES':
        arules['distribution'] = case['dist']
    if case['app_ids'] is not None:
        arules['identifiers'] = case['app_ids']
    apps.append({'name': 'tgt', 'managed': True, 'rules': arules, 'programs': tprogs})
    return {'n': n, 'nodes': case['nodes'], 'phases': [i % 5 for i in range(n)], 'mono': [],
            'options': {'synchro_options': 'LIST', 'synchro_timeout': 15, 'inactivity_ticks': 2, 'auto_fence': False,
                        'core': [], 'conciliation_strategy': 'USER', 'starting_strategy': 'CONFIG',
                        'supvisors_failure_strategy': 'CONTINUE'},
            'apps': apps, 'behaviours': {}, 'late': {}, 'max_delay': 0}


class Settled:
    """Cluster brought to OPERATION with the generated placement."""

    def __init__(self, case):
        from clustersim.episode import Runner
        self.case = case
        self.runner = Runner({'config': build_config(case), 'steps': [], 'suffix': 0}, [])
        self.world = self.runner.world
        r = self.runner
        r.boot_all()
        for _ in range(40):
            r.step({})
        for i, loads in enumerate(case['bg']):
            for k, _load in enumerate(loads):
                r.apply_op(['direct_start', i, f'bg:b{i}x{k}'])
        for _ in range(3):
            r.step({})
        # restarts before the query: handshakes are repeated (the placement there is lost with the instance)
        self.restarted = set()
        for i in case['restarts']:
            if i not in self.restarted:
                self.restarted.add(i)
                r.apply_op(['restart', i, 12])
        if self.restarted:
            for _ in range(45):
                r.step({})
            # the background placement of the restarted instances is re-created (their load counts again)
            for i in sorted(self.restarted):
                for k, _load in enumerate(case['bg'][i]):
                    r.apply_op(['direct_start', i, f'bg:b{i}x{k}'])
            for _ in range(3):
                r.step({})
        self.ok = all(i.alive and i.supvisors.fsm.state.name == 'OPERATION' for i in self.world.instances)

    def close(self):
        self.runner.close()

    # --- ground truth
    def inst_load(self, i):
        return sum(self.case['bg'][i])

    def node_of(self, i):
        return self.case['nodes'][i]

    def ident(self, i):
        return self.world.instances[i].identifier

    def reference(self, strategy, requester, candidates, load, requests):
        """Set of acceptable identifiers (empty set = None expected)."""
        n = self.case['n']
        inst_key = {i: self.inst_load(i) + requests.get(i, 0) for i in range(n)}
        node_key = {}
        for i in range(n):
            node_key[self.node_of(i)] = node_key.get(self.node_of(i), 0) + inst_key[i]
        eligible = [c for c in candidates if node_key[self.node_of(c)] + load <= 100]
        if not eligible:
            return set(), eligible
        if strategy == 'CONFIG':
            return {eligible[0]}, eligible
        if strategy == 'LOCAL':
            return ({requester} if requester in eligible else set()), eligible
        if strategy in ('LESS_LOADED', 'MOST_LOADED'):
            keys = {c: (inst_key[c], node_key[self.node_of(c)]) for c in eligible}
        else:
            keys = {c: (node_key[self.node_of(c)], inst_key[c]) for c in eligible}
        best = min(keys.values()) if strategy.startswith('LESS') else max(keys.values())
        return {c for c in eligible if keys[c] == best}, eligible


def check_case(case, result=None):
    """Returns (finding or None, nontrivial, classes)."""
    s = Settled(case)
    classes = []
    nontrivial = False
    try:
        if not s.ok:
            states = {i.nick: (i.supvisors.fsm.state.name if i.alive else 'dead') for i in s.world.instances}
            return ('harness:not-settled', f'cluster not in OPERATION after the warm-up: {states}'), False, ['not-settled']
        from supvisors.strategy import get_supvisors_instance
        from supvisors.ttypes import StartingStrategies
        n = case['n']
        multi = len(set(case['nodes'])) < n
        requester = case['requester']
        rinst = s.world.instances[requester]
        # (1) pure placement function
        for q in case['queries']:
            cands = q['candidates']
            requests = {int(k): v for k, v in q['requests'].items()}
            req_map = {s.ident(i): v for i, v in requests.items()}
            for strategy in STRATEGIES:
                with s.world.as_current(rinst):
                    try:
                        got = get_supvisors_instance(rinst.supvisors, StartingStrategies[strategy],
                                                     [s.ident(c) for c in cands], q['load'], dict(req_map))
                    except Exception as exc:
                        sig, detail = exception_signature(exc)
                        return (sig, f'get_supvisors_instance({strategy}, {cands}, {q["load"]}, {requests}): {detail}'), \
                            nontrivial, classes
                want, eligible = s.reference(strategy, requester, cands, q['load'], requests)
                if len(eligible) >= 2 or requests or multi:
                    nontrivial = True
                want_ids = {s.ident(c) for c in want}
                if (got is None and want) or (got is not None and got not in want_ids):
                    kind = 'none-although-eligible' if got is None else ('ineligible' if got not in
                                                                         {s.ident(c) for c in eligible} else 'not-optimal')
                    return (f'placement:{strategy}:{kind}',
                            f'{strategy} requester={requester} candidates={cands} load={q["load"]} pending={requests} '
                            f'nodes={case["nodes"]} instance loads={[s.inst_load(i) for i in range(n)]}: chose {got}, '
                            f'acceptable {sorted(want_ids)} (eligible {eligible})'), nontrivial, classes
        classes.append('placement-queries')
        # (2) whole-application placement: a real start_application issued on the requester; the targets of the start
        # requests leaving it are the placement (programs start at once: startsecs=0)
        mark = len(s.world.log)
        res = rinst.call('supvisors', 'start_application', case['app_strategy'], 'tgt', False)
        if res[0] == 'exc':
            return ('internal:start_application', res[1][:300]), nontrivial, classes
        if res[0] not in ('ok', 'fault'):
            return None, nontrivial, classes + ['start-refused']
        for _ in range(12):
            s.runner.step({})
        prediction = []
        for rec in s.world.log[mark:]:
            if rec[1] == 'request' and rec[4] == 'START_PROCESS' and rec[2] == requester:
                namespec = rec[5][0]
                if namespec.startswith('tgt:'):
                    prediction.append({'process_name': namespec.split(':')[1], 'running_identifiers': [rec[3]]})
        classes.append('dist:' + case['dist'])
        bad = check_distribution(s, case, prediction)
        if bad:
            return bad, True, classes
        return None, nontrivial, classes
    finally:
        s.close()


def check_distribution(s, case, prediction):
    n = case['n']
    by_name = {}
    for p in prediction:
        if p['process_name'] in by_name:
            by_name[p['process_name']]['running_identifiers'] = sorted(set(by_name[p['process_name']]['running_identifiers'])
                                                                        | set(p['running_identifiers']))
        else:
            by_name[p['process_name']] = p
    placed = {}
    for k, tp in enumerate(case['tprogs']):
        p = by_name.get(f't{k}')
        if p is None:
            continue
        ids = p['running_identifiers']
        if len(ids) > 1:
            return ('distribution:several-targets', f't{k} predicted on {ids}')
        if ids:
            placed[k] = next(i for i in range(n) if s.ident(i) == ids[0])
    sequenced = [k for k, tp in enumerate(case['tprogs']) if tp['seq'] > 0]
    app_allowed = set(case['app_ids']) if case['app_ids'] is not None else set(range(n))
    loads = {k: case['tprogs'][k]['load'] for k in sequenced}
    node_total = {}
    for i in range(n):
        node_total[s.node_of(i)] = node_total.get(s.node_of(i), 0) + s.inst_load(i)

    def knows(i, k):
        known = case['tprogs'][k]['known']
        return known is None or i in known

    detail = (f'dist={case["dist"]} strategy={case["app_strategy"]} nodes={case["nodes"]} loads={[s.inst_load(i) for i in range(n)]} '
              f'app_ids={case["app_ids"]} tprogs={case["tprogs"]} placed={placed}')
    for k, i in placed.items():
        if not knows(i, k):
            return ('distribution:target-does-not-know-program', f't{k} on instance {i}; {detail}')
    if case['dist'] == 'SINGLE_INSTANCE':
        targets = set(placed.values())
        if len(targets) > 1:
            return ('distribution:SINGLE_INSTANCE:several-instances', detail)
        total = sum(loads.values())
        able = [i for i in range(n) if i in app_allowed and all(knows(i, k) for k in range(len(case['tprogs'])))
                and node_total[s.node_of(i)] + total <= 100]
        if case['app_strategy'] == 'LOCAL':
            able = [i for i in able if i == case['requester']]
        if targets:
            i = next(iter(targets))
            if i not in app_allowed:
                return ('distribution:SINGLE_INSTANCE:application-rule-ignored', detail)
            if node_total[s.node_of(i)] + total > 100:
                return ('distribution:SINGLE_INSTANCE:cannot-carry-whole-sequence',
                        f'instance {i} node load {node_total[s.node_of(i)]} + application {total} > 100; {detail}')
            if set(placed) != set(sequenced):
                return ('distribution:SINGLE_INSTANCE:partial', f'placed {sorted(placed)} of {sequenced}; {detail}')
        elif able and sequenced:
            return ('distribution:SINGLE_INSTANCE:none-although-able', f'able={able}; {detail}')
    elif case['dist'] == 'SINGLE_NODE':
        nodes = {s.node_of(i) for i in placed.values()}
        if len(nodes) > 1:
            return ('distribution:SINGLE_NODE:several-nodes', detail)
        for k, i in placed.items():
            if i not in app_allowed:
                return ('distribution:SINGLE_NODE:application-rule-ignored', f't{k} on {i}; {detail}')
        if nodes:
            node = next(iter(nodes))
            total = sum(loads[k] for k in placed)
            if node_total[node] + total > 100:
                return ('distribution:SINGLE_NODE:node-overloaded', f'node {node}: {node_total[node]} + {total}; {detail}')
    else:
        # ALL_INSTANCES: each process independently, program rule applies; cap per node with the previous placements
        running = dict(node_total)
        for k in sorted(placed, key=lambda x: (case['tprogs'][x]['seq'], x)):
            i = placed[k]
            ids = case['tprogs'][k]['ids']
            if ids is not None and i not in ids:
                return ('distribution:ALL_INSTANCES:program-rule-ignored', f't{k} on {i}; {detail}')
            running[s.node_of(i)] += loads[k]
            if running[s.node_of(i)] > 100:
                return ('distribution:ALL_INSTANCES:node-overloaded', f't{k} on {i}; {detail}')
    return None


def run_shard(ctx: ShardCtx) -> ShardResult:
    result = ShardResult()
    triage = Triage(ctx, result)
    phases = [Phase.generate] if ctx.tier == 'quick' else [Phase.generate, Phase.shrink]

    def go():
        @hypothesis.seed(ctx.hyp_seed + 7919 * len(result.findings))
        @settings(max_examples=ctx.scale(1000, 20000), deadline=None, database=None, report_multiple_bugs=False,
                  phases=phases, suppress_health_check=list(HealthCheck), print_blob=False)
        @given(case_st())
        def test(case):
            bad, nontrivial, classes = check_case(case)
            result.note(case, nontrivial, sample=case if nontrivial else None)
            for c in classes:
                result.classes[c] += 1
            if len(set(case['nodes'])) < case['n']:
                result.classes['multi-instance-node'] += 1
            if case['restarts']:
                result.classes['with-restarts'] += 1
            if bad:
                if bad[0].startswith('harness:'):
                    result.classes[bad[0]] += 1
                    return
                triage.report(bad[0], bad[1], case)
        test()

    triage.collect(go)
    return result


def replay(case) -> list:
    bad, _, _ = check_case(case)
    return [Finding(bad[0], bad[1], case)] if bad and not bad[0].startswith('harness:') else []
