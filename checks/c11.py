"""C11 - Process status is a deterministic synthesis of per-instance reports.

Model-based stateful test (Hypothesis RuleBasedStateMachine): a real Supvisors instance (real Context, ProcessStatus,
ApplicationStatus, FSM event entry points, RPCInterface) receives generated snapshots, process events (any state, any
order), forced states, instance losses, removals and additions from 1-4 puppet peers. After every step
``get_process_info`` / ``get_conflicts`` are compared with a reference model written from the property statement.
"""
from __future__ import annotations

import os

import hypothesis
from hypothesis import settings, strategies as st, Phase, HealthCheck
from hypothesis.stateful import RuleBasedStateMachine, rule, precondition, invariant, run_state_machine_as_test

from vlib.core import ShardCtx, ShardResult, Triage, Finding, PropertyViolation

PROPERTY_ID = 'C11'
LEVEL = 'exploration'
RULE = ('Hypothesis rule-based state machine; one case = one history of <= 40 operations (handshake snapshots, '
        'process events in any state/order, forced states with event time before/equal/after the target last report, '
        'instance losses, removals, additions, ticks) over 1-4 puppet instances and 2 processes, compared with a '
        'reference model after every step. Non-trivial = history reaching a conflict (>= 2 listed instances), or '
        'an applied/dismissed forced state, or an instance loss with a process listed there; distinct = distinct '
        'operation sequences.')
ASSUMPTIONS = ['removals are generated only for instances whose last report is stopped-like (DESIGN 8.5)',
               'under conflict BACKOFF vs STARTING precedence is not checked (statement: "most advanced")',
               'after a handshake snapshot for a process whose state is forced, both displays are accepted',
               'the Supvisors state gate of the status XML-RPCs is satisfied by placing the instance in OPERATION']
SHARDS = {'quick': 8, 'thorough': 16}

STOPPED, STARTING, RUNNING, BACKOFF, STOPPING, EXITED, FATAL, UNKNOWN = 0, 10, 20, 30, 40, 100, 200, 1000
ALL_STATES = [STOPPED, STARTING, RUNNING, BACKOFF, STOPPING, EXITED, FATAL, UNKNOWN]
RUNNING_LIKE = {STARTING, RUNNING, BACKOFF}
STOPPED_LIKE = {STOPPED, EXITED, FATAL, UNKNOWN}
NAMES = {0: 'STOPPED', 10: 'STARTING', 20: 'RUNNING', 30: 'BACKOFF', 40: 'STOPPING', 100: 'EXITED', 200: 'FATAL',
         1000: 'UNKNOWN'}
APP = 'app'
PROCS = ['p0', 'p1']
MAYBE = 'maybe'

RULES_XML = """<?xml version="1.0" encoding="UTF-8" standalone="no"?>
<root><application name="app"><start_sequence>1</start_sequence></application></root>
"""


class Harness:
    """Applies operations to the real instance and to the reference model; ``check`` compares them."""

    def __init__(self, n_peers: int):
        from clustersim.solo import make_solo
        progs = {APP: {p: {} for p in PROCS}}
        self.n_peers = n_peers
        self.world, self.inst = make_solo(n_peers + 1, progs, RULES_XML, local_programs={'other': {'x': {}}})
        self.sv = self.inst.supvisors
        from supvisors.ttypes import SupvisorsStates
        # let the local instance complete its own handshake (events relayed through the local status are only
        # accepted once it is CHECKED / RUNNING)
        for _ in range(11):
            self.world.advance()
        assert self.sv.context.local_status.state.name == 'RUNNING', self.sv.context.local_status.state
        with self.world.as_current(self.inst):
            # the status XML-RPCs are gated from DISTRIBUTION on (C17's subject); place the instance in OPERATION
            self.sv.state_modes.local_state_modes.state = SupvisorsStates.OPERATION
        self.idents = [self.world.instances[i].identifier for i in range(n_peers + 1)]
        self.ops = []
        self.clock = {i: 1000.0 * i for i in range(n_peers + 1)}
        self.rx = 0
        # model
        self.admitted = {i: False for i in range(1, n_peers + 1)}
        self.info = {p: {} for p in PROCS}      # proc -> {i: dict(state, expected, rx, event_time)}
        self.listed = {p: set() for p in PROCS}
        self.forced = {p: None for p in PROCS}
        self.lenient = {p: None for p in PROCS}   # after a removal: (states, expected flags) also acceptable
        self.stopping_loss = {p: set() for p in PROCS}   # diagnosis: instances lost while only STOPPING was listed
        self.flags = set()
        self.tainted = False
        self.last_tick = {}

    def close(self):
        self.world.close()

    # --- helpers
    def status(self, i):
        return self.sv.context.instances[self.idents[i]]

    def _tick_clock(self, i):
        self.clock[i] += 1.0
        return self.clock[i]

    def _snapshot_info(self, i, proc, state, expected):
        now = self._tick_clock(i)
        return {'name': proc, 'group': APP, 'state': state, 'statename': NAMES[state], 'start': int(now) - 5,
                'stop': int(now) - 2 if state in STOPPED_LIKE and state != STOPPED else 0, 'now': int(now),
                'pid': 4242 if state in (STARTING, RUNNING, STOPPING) else 0, 'description': 'generated',
                'spawnerr': '' if expected else 'generated error', 'expected': expected,
                'start_monotonic': now - 5, 'stop_monotonic': 0.0, 'now_monotonic': now, 'extra_args': '',
                'startsecs': 1, 'stopwaitsecs': 10, 'process_index': 0, 'program_name': proc, 'disabled': False,
                'has_stdout': False, 'has_stderr': False}

    def _model_report(self, i, proc, state, expected, event_time):
        self.rx += 1
        self.info[proc][i] = {'state': state, 'expected': expected, 'rx': self.rx, 'event_time': event_time}
        self.lenient[proc] = None
        self.stopping_loss[proc].discard(i)
        if state in RUNNING_LIKE:
            self.listed[proc].add(i)
        elif state in STOPPED_LIKE:
            self.listed[proc].discard(i)
        if len(self.listed[proc]) >= 2:
            self.flags.add('conflict')

    # --- operations (each returns False if it was not applicable and nothing was done)
    def apply(self, op):
        kind = op[0]
        with self.world.as_current(self.inst):
            done = getattr(self, 'op_' + kind)(*op[1:])
        if done is not False:
            self.ops.append(list(op))
        return done

    def op_handshake(self, i, states, activate):
        from supvisors.ttypes import SupvisorsInstanceStates as S
        status = self.status(i)
        if status.state != S.STOPPED:
            return False
        status.state = S.CHECKING
        infos = []
        for proc, (state, expected) in zip(PROCS, states):
            if state is None:
                continue
            info = self._snapshot_info(i, proc, state, expected)
            infos.append(info)
        self.sv.fsm.on_all_process_info(status, infos)
        for info in infos:
            proc = info['name']
            self._model_report(i, proc, info['state'], info['expected'], info['now_monotonic'])
            if self.forced[proc] is not None:
                self.forced[proc] = MAYBE
        status.state = S.CHECKED
        if activate:
            status.state = S.RUNNING
        self.admitted[i] = True

    def op_event(self, i, p, state, expected):
        proc = PROCS[p]
        if not self.admitted[i] or i not in self.info[proc]:
            return False
        now = self._tick_clock(i)
        payload = {'identifier': self.idents[i], 'nick_identifier': f's{i + 1}', 'name': proc, 'group': APP,
                   'state': state, 'now': int(now), 'now_monotonic': now, 'pid': 4242, 'expected': expected,
                   'spawnerr': '' if expected else 'generated', 'extra_args': '', 'disabled': False}
        self.sv.fsm.on_process_state_event(self.status(i), payload)
        self._model_report(i, proc, state, expected, now)
        self.forced[proc] = None

    def op_force(self, target, p, state, dt, via):
        """target: index of the targeted instance, 0 = the local one (no info there), -1 = empty identifier."""
        proc = PROCS[p]
        if not self.info[proc]:
            return False
        sender = via if (via == 0 or self.admitted.get(via)) else 0
        if target > 0 and target in self.info[proc]:
            event_time = self.info[proc][target]['event_time'] + dt
            newer = self.info[proc][target]['event_time'] > event_time
        else:
            event_time = 5.0 + dt
            newer = False
        ident = '' if target < 0 else self.idents[target]
        payload = {'identifier': ident, 'nick_identifier': '' if target < 0 else f's{target + 1}', 'group': APP,
                   'name': proc, 'state': state, 'forced': True, 'now': 1234, 'now_monotonic': event_time, 'pid': 0,
                   'expected': False, 'spawnerr': 'forced by harness', 'extra_args': ''}
        self.sv.fsm.on_process_state_event(self.status(sender), payload)
        if not newer:
            self.forced[proc] = state
            self.flags.add('forced-applied')
        else:
            self.flags.add('forced-dismissed')

    def op_lose(self, i):
        from supvisors.ttypes import SupvisorsInstanceStates as S
        status = self.status(i)
        if not self.admitted[i] or status.state not in (S.CHECKED, S.RUNNING):
            return False
        self.sv.fsm.on_instance_failure(status)
        self.sv.context.invalidate_failed()
        for proc in PROCS:
            if i in self.listed[proc]:
                self.flags.add('loss-with-listed')
                only_stopping = all(self.info[proc][j]['state'] == STOPPING for j in self.listed[proc])
                prev = self.info[proc][i]
                # the invalidation is stamped with the latest time known from that instance (last report or tick)
                self._model_report(i, proc, FATAL, False, max(prev['event_time'], self.last_tick.get(i, 0.0)))
                self.forced[proc] = None
                if only_stopping:
                    self.stopping_loss[proc].add(i)
        self.admitted[i] = False

    def op_remove(self, i, p):
        proc = PROCS[p]
        if not self.admitted[i] or i not in self.info[proc] or self.info[proc][i]['state'] not in STOPPED_LIKE:
            return False
        if i in self.listed[proc]:
            return False
        before = self.expected_display(proc)
        self.sv.fsm.on_process_removed_event(self.status(i), {'name': proc, 'group': APP})
        del self.info[proc][i]
        # the statement does not say whether a removed instance's report still counts as "most recently received":
        # until the next report both the previous display and the recomputed one are accepted
        prev = self.lenient[proc]
        self.lenient[proc] = (set(before[0]) | (prev[0] if prev else set()), {before[1]} | (prev[1] if prev else set()))
        if not self.info[proc]:
            self.forced[proc] = None
        self.flags.add('removal')

    def op_add(self, i, p, state, expected):
        proc = PROCS[p]
        if not self.admitted[i] or i in self.info[proc]:
            return False
        info = self._snapshot_info(i, proc, state, expected)
        self.sv.fsm.on_process_added_event(self.status(i), info)
        self._model_report(i, proc, state, expected, info['now_monotonic'])
        if self.forced[proc] is not None:
            self.forced[proc] = MAYBE

    def op_tick(self, i):
        if not self.admitted[i]:
            return False
        now = self._tick_clock(i)
        # remote ticks are only processed once the local instance is CHECKED / RUNNING: not the case here, the
        # time refresh path is exercised directly
        self.status(i).update_tick(int(now), now, now + 1e9, 3)
        self.last_tick[i] = now

    # --- oracle
    def expected_display(self, proc):
        """Returns (set of acceptable real states, expected_exit or None when unspecified, listed identifiers)."""
        info = self.info[proc]
        listed = self.listed[proc]
        if len(listed) >= 2:
            states = {info[i]['state'] for i in listed}
            if RUNNING in states:
                ok = {RUNNING}
            elif states & {BACKOFF, STARTING}:
                ok = states & {BACKOFF, STARTING}
            else:
                ok = {STOPPING}
            return ok, True
        if len(listed) == 1:
            i = next(iter(listed))
            return {info[i]['state']}, True
        if any(v['state'] == STOPPING for v in info.values()):
            return {STOPPING}, True
        last = max(info.values(), key=lambda v: v['rx'])
        return {last['state']}, last['expected']

    def check(self):
        """Returns None or (signature, detail)."""
        rpc = self.inst.supvisors_rpc
        from supervisor.xmlrpc import RPCError
        with self.world.as_current(self.inst):
            try:
                conflicts = {c['process_name'] for c in rpc.get_conflicts()}
            except RPCError as exc:
                return ('harness-gate', f'get_conflicts refused: {exc}')
            for proc in PROCS:
                namespec = f'{APP}:{proc}'
                try:
                    answer = rpc.get_process_info(namespec)[0]
                except RPCError as exc:
                    if not self.info[proc]:
                        continue
                    return ('missing-process', f'{namespec} unknown although {sorted(self.info[proc])} report it: {exc}')
                if not self.info[proc]:
                    return ('ghost-process', f'{namespec} still reported after removal from every instance')
                ok_states, exp_exit = self.expected_display(proc)
                ok_exp = {exp_exit}
                if self.lenient[proc]:
                    ok_states = set(ok_states) | self.lenient[proc][0]
                    ok_exp |= self.lenient[proc][1]
                want_listed = {self.idents[i] for i in self.listed[proc]}
                got_listed = set(answer['identifiers'])
                if got_listed != want_listed:
                    kind = 'stale-listed' if got_listed - want_listed else 'missing-listed'
                    extra = [i for i in range(1, self.n_peers + 1) if self.idents[i] in got_listed - want_listed]
                    if extra and all(i in self.stopping_loss[proc] for i in extra):
                        kind = 'lost-instance-kept-for-STOPPING-process'
                    return (f'identifiers:{kind}', f'{namespec} listed on {sorted(got_listed)}, expected '
                            f'{sorted(want_listed)}; last reports={self._reports(proc)}')
                if (proc in conflicts) != (len(want_listed) >= 2):
                    return ('conflict-flag', f'{namespec} conflict={proc in conflicts} with listed={sorted(want_listed)}')
                forced = self.forced[proc]
                shown = answer['statecode']
                if forced is None:
                    acceptable = ok_states
                elif forced == MAYBE:
                    acceptable = None
                else:
                    acceptable = {forced}
                if acceptable is not None and shown not in acceptable:
                    what = 'forced' if forced is not None else ('conflict' if len(want_listed) >= 2 else
                                                                'running' if want_listed else 'stopped')
                    return (f'state:{what}', f'{namespec} shown {NAMES.get(shown, shown)}, expected one of '
                            f'{[NAMES[s] for s in sorted(acceptable)]}; forced={forced}; '
                            f'last reports={self._reports(proc)}')
                if forced is None and answer['expected_exit'] not in ok_exp:
                    return ('expected-exit', f'{namespec} expected_exit={answer["expected_exit"]}, model {exp_exit}; '
                            f'last reports={self._reports(proc)}')
        return None

    def _reports(self, proc):
        return {i: (NAMES[v['state']], v['rx']) for i, v in sorted(self.info[proc].items())}

    def nontrivial(self):
        return bool(self.flags & {'conflict', 'forced-applied', 'forced-dismissed', 'loss-with-listed'})


# ---------------------------------------------------------------------------------------------------------------------
state_st = st.sampled_from(ALL_STATES)
opt_state_st = st.one_of(st.none(), state_st)


def make_machine(triage: Triage, result: ShardResult):

    class C11Machine(RuleBasedStateMachine):
        def __init__(self):
            super().__init__()
            self.h = None
            self.n = None

        def _ensure(self, n):
            if self.h is None:
                self.n = n
                self.h = Harness(n)

        @precondition(lambda self: self.h is None)
        @rule(n=st.integers(1, 4), init=st.lists(st.tuples(opt_state_st, st.booleans(), opt_state_st, st.booleans(),
                                                           st.booleans()), min_size=4, max_size=4))
        def setup(self, n, init):
            self._ensure(n)
            for i in range(1, n + 1):
                s0, e0, s1, e1, act = init[i - 1]
                self._do(('handshake', i, [(s0, e0), (s1, e1)], act))

        def _do(self, op):
            if self.h is None:
                self._ensure(2)
            h = self.h
            if h.tainted:
                return
            try:
                done = h.apply(op)
            except Exception as exc:
                from vlib.diag import exception_signature
                sig, detail = exception_signature(exc)
                h.ops.append(list(op))
                h.tainted = True
                triage.report(sig, detail, {'n_peers': h.n_peers, 'ops': h.ops})
                return
            if done is False:
                return
            bad = h.check()
            if bad:
                sig, detail = bad
                h.tainted = True   # a known finding ends the history (what follows is no longer comparable)
                result.classes['histories-ended-by-known-finding'] += 1
                triage.report(sig, detail, {'n_peers': h.n_peers, 'ops': h.ops})

        # --- rules: arguments are drawn from the instances / processes for which the operation applies
        def _admitted(self):
            return sorted(i for i, a in self.h.admitted.items() if a) if self.h else []

        def _stopped_instances(self):
            if not self.h:
                return []
            return [i for i in range(1, self.h.n_peers + 1) if self.h.status(i).state.name == 'STOPPED']

        @precondition(lambda self: self.h is not None and self._stopped_instances())
        @rule(data=st.data(), s0=opt_state_st, e0=st.booleans(), s1=opt_state_st, e1=st.booleans(),
              activate=st.booleans())
        def handshake(self, data, s0, e0, s1, e1, activate):
            i = data.draw(st.sampled_from(self._stopped_instances()))
            self._do(('handshake', i, [(s0, e0), (s1, e1)], activate))

        def _known(self):
            return [(i, p) for p, proc in enumerate(PROCS) for i in sorted(self.h.info[proc]) if self.h.admitted[i]]

        @precondition(lambda self: self.h is not None and self._known())
        @rule(data=st.data(), state=state_st, expected=st.booleans())
        def event(self, data, state, expected):
            i, p = data.draw(st.sampled_from(self._known()))
            self._do(('event', i, p, state, expected))

        @precondition(lambda self: self.h is not None and any(self.h.info[proc] for proc in PROCS))
        @rule(data=st.data(), state=st.sampled_from([FATAL, STOPPED, RUNNING, EXITED]),
              dt=st.sampled_from([-1.0, 0.0, 1.0]))
        def force(self, data, state, dt):
            p = data.draw(st.sampled_from([k for k, proc in enumerate(PROCS) if self.h.info[proc]]))
            tgt = data.draw(st.integers(-1, self.h.n_peers))
            via = data.draw(st.sampled_from([0] + self._admitted()))
            self._do(('force', tgt, p, state, dt, via))

        @precondition(lambda self: self.h is not None and self._admitted())
        @rule(data=st.data())
        def lose(self, data):
            self._do(('lose', data.draw(st.sampled_from(self._admitted()))))

        def _removable(self):
            h = self.h
            return [(i, p) for (i, p) in self._known()
                    if h.info[PROCS[p]][i]['state'] in STOPPED_LIKE and i not in h.listed[PROCS[p]]]

        @precondition(lambda self: self.h is not None and self._removable())
        @rule(data=st.data())
        def remove(self, data):
            i, p = data.draw(st.sampled_from(self._removable()))
            self._do(('remove', i, p))

        def _addable(self):
            h = self.h
            return [(i, p) for i in self._admitted() for p, proc in enumerate(PROCS) if i not in h.info[proc]]

        @precondition(lambda self: self.h is not None and self._addable())
        @rule(data=st.data(), state=state_st, expected=st.booleans())
        def add(self, data, state, expected):
            i, p = data.draw(st.sampled_from(self._addable()))
            self._do(('add', i, p, state, expected))

        @precondition(lambda self: self.h is not None and self._admitted())
        @rule(data=st.data())
        def tick(self, data):
            self._do(('tick', data.draw(st.sampled_from(self._admitted()))))

        def teardown(self):
            if self.h is not None:
                h = self.h
                result.note(h.ops, h.nontrivial(), sample={'n_peers': h.n_peers, 'ops': h.ops[:12]},
                            klass=None)
                for f in h.flags:
                    result.classes[f] += 1
                result.classes['ops'] += len(h.ops)
                h.close()
                self.h = None

    return C11Machine


def run_shard(ctx: ShardCtx) -> ShardResult:
    result = ShardResult()
    triage = Triage(ctx, result)
    n_examples = ctx.scale(1200, 40000)
    phases = [Phase.generate] if ctx.tier == 'quick' else [Phase.generate, Phase.shrink]

    def go():
        machine = hypothesis.seed(ctx.hyp_seed + 7919 * len(result.findings))(make_machine(triage, result))
        run_state_machine_as_test(machine, settings=settings(
            max_examples=n_examples, stateful_step_count=40, deadline=None, database=None,
            report_multiple_bugs=False, phases=phases, suppress_health_check=list(HealthCheck),
            print_blob=False))

    triage.collect(go)
    return result


def replay(case) -> list:
    h = Harness(case['n_peers'])
    findings = []
    try:
        for op in case['ops']:
            op = tuple(op)
            if op[0] == 'handshake':
                op = (op[0], op[1], [tuple(x) for x in op[2]], op[3])
            try:
                done = h.apply(op)
            except Exception as exc:
                from vlib.diag import exception_signature
                sig, detail = exception_signature(exc)
                findings.append(Finding(sig, detail, case))
                break
            if done is False:
                continue
            bad = h.check()
            if bad:
                findings.append(Finding(bad[0], bad[1], case))
                break
    finally:
        h.close()
    return findings
