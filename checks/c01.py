"""C01 - Connected instances converge on one running Master (cluster simulator)."""
from hypothesis import strategies as st

from clustersim.episode import Profile, episode_st, nick
from clustersim.monitors import ConvergenceMonitor, RestartTracker, live_view, components
from clustersim.world import Monitor
from checks.cluster import EpisodeCheck, fault_classes

PROPERTY_ID = 'C01'
LEVEL = 'exploration'
RULE = ('Hypothesis-generated episodes on the cluster simulator: 2-5 real instances, every non-empty synchro_options '
        'subset (the harness plays the user for USER), core_identifiers subsets, both auto_fence values; prefix of '
        'crashes, restarts with downtime 0-20 s, pairwise cuts, isolations, heals, late boots, with held / re-ordered '
        'deliveries and steps injected inside handshakes; no user start/stop request (every request is automatic); then '
        'a quiet suffix of K ticks. Oracles: (a) every START/STOP request is emitted by an instance that regards '
        'itself as Master; (b) after the suffix every group of live, mutually reachable, mutually non-isolated '
        'instances whose synchronisation condition is satisfiable reports one Master, member of the group, seen '
        'RUNNING by all and self-Master; (c) a Master agreed at the end of the warm-up is kept when only other '
        'instances crash / restart; (d) fault-free LIST/STRICT boots elect the lowest nick among the core members '
        '(if any) else among all. Non-trivial = episode with a fault or a late boot, or two different Masters '
        'declared; distinct = distinct episodes.')
ASSUMPTIONS = ['convergence is decided in bounded form: K ticks after the last disturbance (K in the evidence)',
               'groups in which isolation is not symmetric / transitive are excluded and counted (DESIGN 8.1)']
SHARDS = {'quick': 16, 'thorough': 16}


class P(Profile):
    n_min = 2
    n_max = 5
    apps_max = 1
    progs_max = 2
    proc_ops = ('exit',)
    user_ops = ()
    fault_ops = ('crash', 'restart', 'restart', 'cut', 'isolate', 'heal', 'heal_all', 'boot')
    sv_failure = ('CONTINUE', 'RESYNC')
    op_rate = 0.22
    steps_max = 60
    warmups = (0, 0, 40, 60)
    behaviours = False
    wait_exit = 0.0
    running_failure = ('CONTINUE', 'RESTART_PROCESS', 'STOP_APPLICATION', 'RESTART_APPLICATION')
    sequences = (1, 1, 0)
    startsecs = (0, 1)


class MasterActsMonitor(Monitor):
    """(a) automatic requests only from a self-Master; also records Master declarations."""

    def __init__(self):
        self.findings = []
        self.declared = set()
        self.requests = 0

    def on_request(self, inst, identifier, rtype, body):
        if rtype.name in ('START_PROCESS', 'STOP_PROCESS'):
            self.requests += 1
            master = inst.supvisors.state_modes.master_identifier
            if master != inst.identifier:
                self.findings.append((f'non-master-acts:{rtype.name}',
                                      f't={inst.world.now} {inst.nick} (Master known: {master or "none"}) sent '
                                      f'{rtype.name} {body} to {identifier}'))

    def on_publication(self, inst, ptype, body):
        if ptype.name == 'STATE' and body['master_identifier']:
            self.declared.add(body['master_identifier'])


def make_monitors(episode):
    return [ConvergenceMonitor(episode['config'], check_operation=False), MasterActsMonitor(), RestartTracker(),
            RetentionMonitor(episode)]


class RetentionMonitor(Monitor):
    """(c) "A running Master that is the only one recognised is kept when instances join or leave".

    For every instance X (per incarnation): when X replaces a non-empty Master m by another non-empty Master m2, either
    X saw m leave RUNNING since it adopted it, or some other instance declared a Master different from m in the
    meantime (the Master was not the only one recognised). Otherwise the change is a violation."""

    def __init__(self, episode):
        self.current = {}      # (idx, inc) -> (master, time adopted)
        self.left_running = {} # (idx, inc, ident) -> last time ident left RUNNING in the view of X
        self.declared = []     # (time, declaring idx, master)
        self.latest = {}       # idx -> (last declared master, incarnation)
        self.findings = []
        self.applicable = 0

    def on_instance_state(self, inst, identifier, new_state):
        if new_state.name != 'RUNNING':
            self.left_running[(inst.idx, inst.incarnation, identifier)] = inst.world.now + inst.world.micro * 1e-6

    def on_publication(self, inst, ptype, body):
        if ptype.name != 'STATE':
            return
        w = inst.world
        now = w.now + w.micro * 1e-6
        key = (inst.idx, inst.incarnation)
        master = body['master_identifier']
        prev = self.current.get(key)
        self.latest[inst.idx] = (master, inst.incarnation)
        if master:
            self.declared.append((now, inst.idx, master))
        if not master:
            return          # '' is a transient of the election; the comparison is made on the next non-empty value
        if prev is None:
            self.current[key] = (master, now)
            return
        m, since = prev
        if master == m:
            return
        self.current[key] = (master, now)
        left = self.left_running.get((inst.idx, inst.incarnation, m))
        m_lost = left is not None and left >= since
        # Masters recognised by the others: declared since X adopted m, or still declared now by a live instance
        others = [d for d in self.declared if d[0] >= since and d[0] < now and d[2] != m and d[1] != inst.idx]
        for j, (mj, incj) in self.latest.items():
            other = w.instances[j]
            if j != inst.idx and other.alive and other.incarnation == incj and mj not in ('', m):
                others.append((now, j, mj))
        self.applicable += 1
        if not m_lost and not others:
            self.findings.append(('master-not-kept', f't={w.now} {inst.nick} replaced Master {m} (adopted at t={since:.0f}, '
                                  f'seen RUNNING ever since, the only Master declared by anybody) by {master}'))

    def finish(self, world):
        return list(self.findings)


def expected_clean_master(episode):
    """(d) unique outcome only for fault-free, simultaneous boots with LIST / STRICT alone."""
    cfg = episode['config']
    sync = set(str(cfg['options']['synchro_options']).split(','))
    if not sync <= {'LIST', 'STRICT'} or cfg.get('late'):
        return None
    for rec in episode['steps']:
        if rec.get('ops'):
            return None
    core = cfg['options'].get('core') or []
    pool = core if core else list(range(cfg['n']))
    return min(pool, key=lambda k: nick(k))


def evaluate(runner, monitors):
    conv, acts, tracker, retention = monitors
    world = runner.world
    found = list(acts.findings)
    stale = tracker.undetected(world)
    conv_findings = conv.finish(world)
    if stale and conv_findings:
        # root cause diagnosis: a view still based on a previous incarnation of a live peer
        found.append(('undetected-quick-restart', f'{stale}: {conv_findings[0][0]} {conv_findings[0][1]}'))
    else:
        found.extend(conv_findings)
    found.extend(retention.finish(world))
    exp = expected_clean_master(runner.episode)
    if exp is not None:
        want = world.instances[exp].identifier
        for inst in world.instances:
            if inst.alive:
                got = live_view(inst)['master']
                if got != want:
                    found.append(('election-rule', f'fault-free boot: {inst.nick} reports Master {got or "none"}, the '
                                  f'documented rule gives {want}'))
                    break
    seen = set()
    for sig, detail in found:
        if sig not in seen:
            seen.add(sig)
            yield sig, detail


def classify(runner, monitors, episode):
    conv, acts, tracker, retention = monitors
    classes = fault_classes(runner)
    if retention.applicable:
        classes.append('master-change-examined')
    if expected_clean_master(episode) is not None:
        classes.append('clean-election')
    if len(acts.declared) >= 2:
        classes.append('two-masters-declared')
    if conv.excluded_nonclique:
        classes.append('excluded:non-clique')
    if conv.excluded:
        classes.append('excluded:sync-unsatisfiable-or-ending')
    if acts.requests:
        classes.append('automatic-requests')
    nontrivial = runner.faults_applied > 0 or bool(episode['config'].get('late')) or len(acts.declared) >= 2
    return nontrivial, classes


class PClean(P):
    """fault-free simultaneous boots (schedules still perturbed): the election outcome is unique"""
    sync_sets = ('LIST', 'STRICT', 'STRICT,LIST')
    op_rate = 0.0
    late_boot = 0.0
    steps_max = 40
    warmups = (0,)


class PRetention(P):
    """agreed Master after a full warm-up, then only crashes / restarts (retention oracle applicable when they spare
    the Master)"""
    fault_ops = ('crash', 'restart', 'restart', 'boot')
    sync_sets = ('TIMEOUT', 'LIST,TIMEOUT', 'CORE,TIMEOUT', 'TIMEOUT,USER')
    warmups = (45, 60)
    late_boot = 0.5
    n_min = 3


CHECK = EpisodeCheck(PROPERTY_ID, st.one_of(episode_st(P), episode_st(P), episode_st(PRetention), episode_st(PClean)),
                     make_monitors, evaluate, classify, quick=900, thorough=14000,
                     suffix_kwargs={'boot_dead': None})


def run_shard(ctx):
    return CHECK.run_shard(ctx)


def replay(case):
    return CHECK.replay(case)
