"""C01 - Connected instances converge on one running Master (cluster simulator)."""
from hypothesis import strategies as st

from clustersim.episode import Profile, episode_st, nick
from clustersim.monitors import ConvergenceMonitor, RestartTracker, live_view, components
from clustersim.world import Monitor
from checks.cluster import EpisodeCheck, fault_classes

PROPERTY_ID = 'C01'
LEVEL = 'exploration'
RULE = ('Hypothesis-generated episodes on the cluster simulator: 2-5 real instances, every non-empty synchro_options '
        'subset (the harness plays the user for USER), core_identifiers subsets, both auto_fence values; prefix of '
        'crashes, restarts with downtime 0-20 s, pairwise cuts, isolations, heals, late boots, with held / re-ordered '
        'deliveries and steps injected inside handshakes; no user start/stop request (every request is automatic); then '
        'a quiet suffix of K ticks. Oracles: (a) every START/STOP request is emitted by an instance that regards '
        'itself as Master; (b) after the suffix every group of live, mutually reachable, mutually non-isolated '
        'instances whose synchronisation condition is satisfiable reports one Master, member of the group, seen '
        'RUNNING by all and self-Master; (c) a Master agreed at the end of the warm-up is kept when only other '
        'instances crash / restart; (d) fault-free LIST/STRICT boots elect the lowest nick among the core members '
        '(if any) else among all. Non-trivial = episode with a fault or a late boot, or two different Masters '
        'declared; distinct = distinct episodes.')
ASSUMPTIONS = ['convergence is decided in bounded form: K ticks after the last disturbance (K in the evidence)',
               'groups in which isolation is not symmetric / transitive are excluded and counted (DESIGN 8.1)']
SHARDS = {'quick': 16, 'thorough': 16}


class P(Profile):
    n_min = 2
    n_max = 5
    apps_max = 1
    progs_max = 2
    proc_ops = ()
    user_ops = ()
    fault_ops = ('crash', 'restart', 'restart', 'cut', 'isolate', 'heal', 'heal_all', 'boot')
    sv_failure = ('CONTINUE', 'RESYNC')
    op_rate = 0.22
    steps_max = 60
    warmups = (0, 0, 40, 60)
    behaviours = False
    wait_exit = 0.0
    running_failure = ('CONTINUE', 'RESTART_PROCESS')
    sequences = (0, 1)
    startsecs = (0, 1)


class MasterActsMonitor(Monitor):
    """(a) automatic requests only from a self-Master; also records Master declarations."""

    def __init__(self):
        self.findings = []
        self.declared = set()
        self.requests = 0

    def on_request(self, inst, identifier, rtype, body):
        if rtype.name in ('START_PROCESS', 'STOP_PROCESS'):
            self.requests += 1
            master = inst.supvisors.state_modes.master_identifier
            if master != inst.identifier:
                self.findings.append((f'non-master-acts:{rtype.name}',
                                      f't={inst.world.now} {inst.nick} (Master known: {master or "none"}) sent '
                                      f'{rtype.name} {body} to {identifier}'))

    def on_publication(self, inst, ptype, body):
        if ptype.name == 'STATE' and body['master_identifier']:
            self.declared.add(body['master_identifier'])


def make_monitors(episode):
    return [ConvergenceMonitor(episode['config'], check_operation=False), MasterActsMonitor(), RestartTracker(),
            RetentionMonitor(episode)]


class RetentionMonitor(Monitor):
    """(c): Master agreed at the end of the warm-up; only other instances crash / restart afterwards."""

    def __init__(self, episode):
        self.episode = episode
        self.master = None
        self.applicable = False

    def attach(self, runner):
        self.runner = runner

    def on_warmup_end(self, world):
        self._snapshot(world)

    def _snapshot(self, world):
        live = [i for i in world.instances if i.alive]
        if len(live) < 2:
            return
        views = [live_view(i) for i in live]
        masters = {v['master'] for v in views}
        if len(masters) == 1 and '' not in masters and all(v['state'] == 'OPERATION' for v in views) \
                and len(live) == len(world.instances):
            self.master = next(iter(masters))
            m = world.by_identifier(self.master)
            ok = True
            for rec in self.episode['steps']:
                for op in rec.get('ops', []):
                    if op[0] in ('cut', 'isolate', 'heal', 'heal_all'):
                        ok = False
                    elif op[0] in ('crash', 'restart', 'boot') and (op[1] % len(world.instances)) == m.idx:
                        ok = False
            self.applicable = ok

    def finish(self, world):
        if not self.applicable:
            return []
        m = world.by_identifier(self.master)
        out = []
        for comp, clique in components(world):
            if m in comp and clique:
                for i in comp:
                    v = live_view(i)
                    if v['master'] != self.master:
                        out.append(('master-not-kept', f'Master {self.master} agreed after warm-up, untouched since; '
                                    f'{i.nick} now reports {v["master"] or "none"} in {v["state"]}'))
                        break
        return out


def expected_clean_master(episode):
    """(d) unique outcome only for fault-free, simultaneous boots with LIST / STRICT alone."""
    cfg = episode['config']
    sync = set(str(cfg['options']['synchro_options']).split(','))
    if not sync <= {'LIST', 'STRICT'} or cfg.get('late'):
        return None
    for rec in episode['steps']:
        if rec.get('ops'):
            return None
    core = cfg['options'].get('core') or []
    pool = core if core else list(range(cfg['n']))
    return min(pool, key=lambda k: nick(k))


def evaluate(runner, monitors):
    conv, acts, tracker, retention = monitors
    world = runner.world
    found = list(acts.findings)
    stale = tracker.undetected(world)
    conv_findings = conv.finish(world)
    if stale and conv_findings:
        # root cause diagnosis: a view still based on a previous incarnation of a live peer
        found.append(('undetected-quick-restart', f'{stale}: {conv_findings[0][0]} {conv_findings[0][1]}'))
    else:
        found.extend(conv_findings)
    found.extend(retention.finish(world))
    exp = expected_clean_master(runner.episode)
    if exp is not None:
        want = world.instances[exp].identifier
        for inst in world.instances:
            if inst.alive:
                got = live_view(inst)['master']
                if got != want:
                    found.append(('election-rule', f'fault-free boot: {inst.nick} reports Master {got or "none"}, the '
                                  f'documented rule gives {want}'))
                    break
    seen = set()
    for sig, detail in found:
        if sig not in seen:
            seen.add(sig)
            yield sig, detail


def classify(runner, monitors, episode):
    conv, acts, tracker, retention = monitors
    classes = fault_classes(runner)
    if retention.applicable:
        classes.append('retention-applicable')
    if expected_clean_master(episode) is not None:
        classes.append('clean-election')
    if len(acts.declared) >= 2:
        classes.append('two-masters-declared')
    if conv.excluded_nonclique:
        classes.append('excluded:non-clique')
    if conv.excluded:
        classes.append('excluded:sync-unsatisfiable-or-ending')
    if acts.requests:
        classes.append('automatic-requests')
    nontrivial = runner.faults_applied > 0 or bool(episode['config'].get('late')) or len(acts.declared) >= 2
    return nontrivial, classes


class PClean(P):
    """fault-free simultaneous boots (schedules still perturbed): the election outcome is unique"""
    sync_sets = ('LIST', 'STRICT', 'STRICT,LIST')
    op_rate = 0.0
    late_boot = 0.0
    steps_max = 40
    warmups = (0,)


class PRetention(P):
    """agreed Master after a full warm-up, then only crashes / restarts (retention oracle applicable when they spare
    the Master)"""
    fault_ops = ('crash', 'restart', 'restart', 'boot')
    warmups = (60,)
    late_boot = 0.0
    n_min = 3


CHECK = EpisodeCheck(PROPERTY_ID, st.one_of(episode_st(P), episode_st(P), episode_st(PRetention), episode_st(PClean)),
                     make_monitors, evaluate, classify, quick=900, thorough=14000,
                     suffix_kwargs={'boot_dead': None})


def run_shard(ctx):
    return CHECK.run_shard(ctx)


def replay(case):
    return CHECK.replay(case)
