"""C02 - Supvisors state only moves along the documented state graph (cluster simulator)."""
from hypothesis import strategies as st

from clustersim.episode import Profile, episode_st, SV_FAILURE, RUNNING_FAILURE
from clustersim.monitors import StateGraphMonitor, RestartTracker
from checks.cluster import EpisodeCheck, fault_classes

PROPERTY_ID = 'C02'
LEVEL = 'exploration'
RULE = ('Hypothesis-generated episodes on the cluster simulator (2-4 real instances; all synchro_options subsets, all '
        'supvisors_failure_strategy values, running failure strategies incl. RESTART / SHUTDOWN; crashes, restarts, '
        'cuts, heals, process crashes, restart / shutdown / end_sync / start / stop requests on any instance; held, '
        're-ordered and interleaved deliveries). Oracle: the exact per-incarnation sequence of published Supvisors '
        'states follows a golden copy of the documented graph kept in the harness; DISTRIBUTION, OPERATION, '
        'CONCILIATION, RESTARTING, SHUTTING_DOWN are entered with a non-empty Master seen RUNNING, and by a non-Master '
        'only after its Master published that state. Non-trivial = episode whose sequences take a return edge (to OFF, '
        'SYNCHRONIZATION or ELECTION) or reach an ending state; distinct = distinct episodes.')
ASSUMPTIONS = ['golden graph = transition table of the pinned commit + documented returns from every state after '
               'SYNCHRONIZATION (DESIGN 8.2)',
               'state sequences are observed on the STATE publications (every local state change is published)']
SHARDS = {'quick': 16, 'thorough': 16}

RETURNS = {'OFF', 'SYNCHRONIZATION', 'ELECTION'}


class P(Profile):
    n_min = 2
    n_max = 4
    sv_failure = tuple(SV_FAILURE)
    running_failure = tuple(RUNNING_FAILURE)
    user_ops = ('rpc_end', 'rpc', 'end_sync')
    op_rate = 0.3
    steps_max = 50
    warmups = (0, 30, 45, 60)


def make_monitors(episode):
    return [StateGraphMonitor(), RestartTracker()]


def evaluate(runner, monitors):
    seen = set()
    shutdown_strategy = runner.config['options'].get('supvisors_failure_strategy') == 'SHUTDOWN'
    for sig, detail in monitors[0].finish(runner.world):
        # diagnosis: with supvisors_failure_strategy=SHUTDOWN every instance decides by itself to enter SHUTTING_DOWN
        # when its synchronisation condition is not met any more (known finding, see DESIGN.md section 7)
        if shutdown_strategy and sig in ('enter-without-master:SHUTTING_DOWN', 'slave-before-master:SHUTTING_DOWN',
                                         'enter-master-not-running:SHUTTING_DOWN'):
            sig = 'failure-strategy-SHUTDOWN:' + sig
        if sig not in seen:
            seen.add(sig)
            yield sig, detail


def classify(runner, monitors, episode):
    mon = monitors[0]
    classes = fault_classes(runner)
    returns = any(b in RETURNS and a not in ('OFF',) and (a, b) != ('SYNCHRONIZATION', 'ELECTION')
                  for a, b in mon.edges_seen)
    ending = any(b in ('RESTARTING', 'SHUTTING_DOWN', 'FINAL') for a, b in mon.edges_seen)
    for a, b in mon.edges_seen:
        classes.append(f'edge:{a}->{b}')
    return returns or ending, classes


CHECK = EpisodeCheck(PROPERTY_ID, episode_st(P), make_monitors, evaluate, classify, quick=1000, thorough=16000,
                     suffix_kwargs={'ticks': 12, 'boot_dead': True}, partial_on_hang=True)


def run_shard(ctx):
    return CHECK.run_shard(ctx)


def replay(case):
    return CHECK.replay(case)
