"""C16 - No event sequence makes an instance fail internally (cluster simulator, exception bucketing)."""
from clustersim.episode import Profile, episode_st, STARTING, CONCILIATION
from clustersim.monitors import InternalErrorMonitor, RestartTracker
from checks.cluster import EpisodeCheck, fault_classes

PROPERTY_ID = 'C16'
LEVEL = 'exploration'
RULE = ('Hypothesis-generated episodes on the cluster simulator (2-4 real instances, generated options / rules / '
        'Supervisor programs incl. instances knowing different programs and restricted distributions; histories of '
        'crashes, quick and slow restarts, cuts, heals, process exits, direct Supervisor actions, user XML-RPCs with '
        'valid and invalid parameters, held / re-ordered / interleaved deliveries) followed by a quiet suffix. Oracle: '
        'no critical record with a traceback (last-resort guards), no exception other than RPCError out of an '
        'XML-RPC (user or peer), no exception out of a proxy thread or the main loop. Failures are bucketed by '
        '(exception type, innermost supvisors function, guard). Non-trivial = episode with at least one fault or '
        'user operation applied; distinct = distinct episodes.')
ASSUMPTIONS = ['payload schemas are those of real peers (no malformed JSON)',
               'handlers are atomic (one Supervisor main loop); proxy threads are FIFO queues',
               'XML-RPC parameters are XML-RPC marshallable values']
SHARDS = {'quick': 16, 'thorough': 16}


class P(Profile):
    n_min = 2
    n_max = 4
    user_ops = ('rpc', 'rpc', 'rpc_fuzz', 'end_sync')
    proc_ops = ('exit', 'direct_start', 'direct_stop', 'group_ops')
    known_subsets = True
    distribution = ('ALL_INSTANCES', 'SINGLE_INSTANCE', 'SINGLE_NODE')
    multi_instance_node = 0.35
    sv_failure = ('CONTINUE', 'RESYNC', 'SHUTDOWN')
    running_failure = ('CONTINUE', 'RESTART_PROCESS', 'STOP_APPLICATION', 'RESTART_APPLICATION', 'SHUTDOWN', 'RESTART')
    op_rate = 0.35
    steps_max = 50
    warmups = (0, 30, 45)
    starting = tuple(STARTING)


class PStorm(P):
    """XML-RPC storms: mostly user requests with valid and invalid parameter values, few faults."""
    user_ops = ('rpc_fuzz', 'rpc_fuzz', 'rpc_fuzz', 'rpc')
    fault_ops = ('crash', 'restart')
    proc_ops = ('direct_start', 'group_ops')
    op_rate = 0.8
    ops_per_step_max = 4
    steps_max = 40
    warmups = (0, 30, 45)
    hold_rate = 0.05
    order_rate = 0.1
    inject_rate = 0.05


def make_monitors(episode):
    return [InternalErrorMonitor(), RestartTracker()]


def evaluate(runner, monitors):
    seen = set()
    for sig, detail in monitors[0].finish(runner.world):
        if sig not in seen:
            seen.add(sig)
            yield sig, detail


def classify(runner, monitors, episode):
    classes = fault_classes(runner)
    user = sum(1 for t, op in runner.op_log if op[0] in ('rpc', 'rpc_fuzz', 'end_sync', 'sup_rpc', 'group_ops'))
    nontrivial = runner.faults_applied > 0 or user > 0
    return nontrivial, classes


from hypothesis import strategies as _st
CHECK = EpisodeCheck(PROPERTY_ID, _st.one_of(episode_st(P), episode_st(P), episode_st(PStorm)), make_monitors, evaluate,
                     classify, quick=1100, thorough=16000,
                     suffix_kwargs={'ticks': 10, 'boot_dead': True}, hang_is_finding=True)


def run_shard(ctx):
    return CHECK.run_shard(ctx)


def replay(case):
    return CHECK.replay(case)
