"""C16 - No event sequence makes an instance fail internally (cluster simulator, exception bucketing)."""
from clustersim.episode import Profile, episode_st, STARTING, CONCILIATION
from clustersim.monitors import InternalErrorMonitor, RestartTracker
from checks.cluster import EpisodeCheck, fault_classes

PROPERTY_ID = 'C16'
LEVEL = 'exploration'
RULE = ('Hypothesis-generated episodes on the cluster simulator (2-4 real instances, generated options / rules / '
        'Supervisor programs incl. instances knowing different programs and restricted distributions; histories of '
        'crashes, quick and slow restarts, cuts, heals, process exits, direct Supervisor actions, user XML-RPCs with '
        'valid and invalid parameters, held / re-ordered / interleaved deliveries) followed by a quiet suffix. Oracle: '
        'no critical record with a traceback (last-resort guards), no exception other than RPCError out of an '
        'XML-RPC (user or peer), no exception out of a proxy thread or the main loop. Failures are bucketed by '
        '(exception type, innermost supvisors function, guard). Non-trivial = episode with at least one fault or '
        'user operation applied; distinct = distinct episodes.')
ASSUMPTIONS = ['payload schemas are those of real peers (no malformed JSON)',
               'handlers are atomic (one Supervisor main loop); proxy threads are FIFO queues',
               'XML-RPC parameters are XML-RPC marshallable values']
SHARDS = {'quick': 8, 'thorough': 16}


class P(Profile):
    n_min = 2
    n_max = 4
    user_ops = ('rpc', 'rpc', 'rpc_fuzz', 'end_sync')
    proc_ops = ('exit', 'direct_start', 'direct_stop', 'group_ops')
    known_subsets = True
    distribution = ('ALL_INSTANCES', 'SINGLE_INSTANCE', 'SINGLE_NODE')
    multi_instance_node = 0.35
    sv_failure = ('CONTINUE', 'RESYNC', 'SHUTDOWN')
    running_failure = ('CONTINUE', 'RESTART_PROCESS', 'STOP_APPLICATION', 'RESTART_APPLICATION', 'SHUTDOWN', 'RESTART')
    op_rate = 0.35
    steps_max = 50
    warmups = (0, 30, 45)
    starting = tuple(STARTING)


def make_monitors(episode):
    return [InternalErrorMonitor(), RestartTracker()]


def evaluate(runner, monitors):
    seen = set()
    for sig, detail in monitors[0].finish(runner.world):
        if sig not in seen:
            seen.add(sig)
            yield sig, detail


def classify(runner, monitors, episode):
    classes = fault_classes(runner)
    user = sum(1 for t, op in runner.op_log if op[0] in ('rpc', 'rpc_fuzz', 'end_sync', 'sup_rpc', 'group_ops'))
    nontrivial = runner.faults_applied > 0 or user > 0
    return nontrivial, classes


CHECK = EpisodeCheck(PROPERTY_ID, episode_st(P), make_monitors, evaluate, classify, quick=320, thorough=12000,
                     suffix_kwargs={'ticks': 10, 'boot_dead': True})


def run_shard(ctx):
    return CHECK.run_shard(ctx)


def replay(case):
    return CHECK.replay(case)
