"""C08 - After disturbances the cluster returns to OPERATION; nobody stays parked (bounded liveness)."""
from hypothesis import strategies as st

from clustersim.episode import Profile, episode_st
from clustersim.monitors import ConvergenceMonitor, RestartTracker, live_view
from checks.cluster import EpisodeCheck, fault_classes

PROPERTY_ID = 'C08'
LEVEL = 'exploration'
RULE = ('Hypothesis-generated episodes on the cluster simulator: 2-4 real instances, all synchro_options subsets, '
        'supvisors_failure_strategy in {CONTINUE, RESYNC}, all conciliation strategies, sequenced applications with '
        'generated process behaviours; warm-up then a prefix of crashes, quick / slow restarts, cuts, heals, process '
        'exits, direct Supervisor starts (conflicts) hitting any Supvisors state, with held / re-ordered / interleaved '
        'deliveries; then a fair loss-free suffix of K ticks (K derived from the configuration, reported) during which '
        'every dead instance is rebooted and children behave. Oracle: every group of live, mutually reachable, non '
        'isolated instances whose synchronisation condition is satisfiable is in the state of its Master, OPERATION '
        '(CONCILIATION only while a conflict is left to the USER strategy), with no start / stop job pending. '
        'Non-trivial = a fault hits the Master, or hits an instance that is in ELECTION / DISTRIBUTION / CONCILIATION; '
        'distinct = distinct episodes.')
ASSUMPTIONS = ['liveness is decided in bounded form: K fair ticks after the last disturbance (virtual clock)',
               'running failure strategies RESTART / SHUTDOWN and supvisors_failure_strategy SHUTDOWN are excluded '
               '(proviso of the property)',
               'wait_exit programs exit (the documented exception of C10 is excluded)']
SHARDS = {'quick': 16, 'thorough': 16}


class P(Profile):
    n_min = 2
    n_max = 4
    sv_failure = ('CONTINUE', 'RESYNC')
    running_failure = ('CONTINUE', 'RESTART_PROCESS', 'STOP_APPLICATION', 'RESTART_APPLICATION')
    fault_ops = ('crash', 'restart', 'restart', 'cut', 'isolate', 'heal', 'heal_all', 'boot')
    proc_ops = ('exit', 'direct_start', 'direct_start', 'direct_stop')
    user_ops = ()
    op_rate = 0.3
    steps_max = 60
    warmups = (0, 15, 20, 25, 30, 45, 60)
    startsecs = (1, 6, 12)
    progs_max = 4
    sequences = (1, 1, 1, 2, 0)


class FaultContextMonitor:
    """Records the Supvisors state of the victim and whether it is the Master when a fault is applied."""

    def __init__(self):
        self.hits = set()

    def attach(self, runner):
        self.runner = runner
        orig = runner.apply_op

        def wrapped(op):
            if op[0] in ('crash', 'restart', 'isolate', 'cut'):
                try:
                    inst = runner.inst(op[1])
                    if inst.alive:
                        v = live_view(inst)
                        if v['master'] == inst.identifier:
                            self.hits.add('fault-on-Master')
                        if v['state'] in ('ELECTION', 'DISTRIBUTION', 'CONCILIATION', 'SYNCHRONIZATION'):
                            self.hits.add('fault-in-' + v['state'])
                        for other in runner.world.instances:
                            if other.alive and other is not inst:
                                s = live_view(other)['state']
                                if s in ('DISTRIBUTION', 'CONCILIATION', 'ELECTION'):
                                    self.hits.add('fault-while-peer-in-' + s)
                except Exception:
                    pass
            return orig(op)
        runner.apply_op = wrapped

    # Monitor protocol (no-ops)
    def on_publication(self, *a): pass
    def on_request(self, *a): pass
    def on_instance_state(self, *a): pass
    def on_enqueue(self, *a): pass
    def on_rpc(self, *a): pass
    def on_user_internal_error(self, *a): pass
    def after_instance_step(self, *a): pass
    def after_step(self, *a): pass


def make_monitors(episode):
    return [ConvergenceMonitor(episode['config'], check_operation=True), RestartTracker(), FaultContextMonitor()]


def evaluate(runner, monitors):
    conv, tracker, ctxmon = monitors
    world = runner.world
    found = conv.finish(world)
    stale = tracker.undetected(world)
    seen = set()
    for sig, detail in found:
        if stale:
            sig, detail = 'undetected-quick-restart', f'{stale}: {sig} {detail}'
        if sig not in seen:
            seen.add(sig)
            yield sig, detail


def classify(runner, monitors, episode):
    conv, tracker, ctxmon = monitors
    classes = fault_classes(runner) + sorted(ctxmon.hits)
    if conv.excluded_nonclique:
        classes.append('excluded:non-clique')
    if conv.excluded:
        classes.append('excluded:sync-unsatisfiable-or-ending')
    return bool(ctxmon.hits), classes


CHECK = EpisodeCheck(PROPERTY_ID, episode_st(P), make_monitors, evaluate, classify, quick=1100, thorough=16000,
                     suffix_kwargs={'boot_dead': True})


def run_shard(ctx):
    return CHECK.run_shard(ctx)


def replay(case):
    return CHECK.replay(case)
