"""C06 part (a) - the RunningFailureHandler against a reference model (rule-based state machine).

A real Supvisors instance (real Context / ApplicationStatus / ProcessStatus / RunningFailureHandler) whose Starter and
Stopper are replaced by recorders receives generated sequences of failure notifications (add_default_job, add_job with any
strategy), triggers with a generated set of applications having jobs, aborts, and process state changes (application
fully stopped or not). After every step the four job sets and the calls recorded are compared with a reference model
written from the property statement: one pending action per application by precedence STOP_APPLICATION >
RESTART_APPLICATION > RESTART_PROCESS > CONTINUE, RESTART_PROCESS promoted to RESTART_APPLICATION when the application is
fully stopped and the process belongs to its start sequence, each action triggered exactly once, deferred while the
application has Starter / Stopper jobs.
"""
from __future__ import annotations

import hypothesis
from hypothesis import settings, strategies as st, Phase, HealthCheck
from hypothesis.stateful import RuleBasedStateMachine, rule, precondition, run_state_machine_as_test

from vlib.core import Finding

STRATEGIES = ['CONTINUE', 'RESTART_PROCESS', 'STOP_APPLICATION', 'RESTART_APPLICATION']
APPS = {'appA': ['p0', 'p1', 'p2'], 'appB': ['q0', 'q1']}
RUNNING, STOPPED, EXITED, FATAL = 20, 0, 100, 200
NAMES = {0: 'STOPPED', 20: 'RUNNING', 100: 'EXITED', 200: 'FATAL'}


def rules_xml(strategies, sequences):
    out = ['<?xml version="1.0" encoding="UTF-8" standalone="no"?>', '<root>']
    for app, procs in APPS.items():
        out.append(f'<application name="{app}"><start_sequence>1</start_sequence><programs>')
        for p in procs:
            out.append(f'<program name="{p}"><identifiers>*</identifiers><start_sequence>{sequences[p]}</start_sequence>'
                       f'<running_failure_strategy>{strategies[p]}</running_failure_strategy></program>')
        out.append('</programs></application>')
    out.append('</root>')
    return '\n'.join(out)


class Recorder:
    """Stands for the Starter / Stopper: records what the handler asks for."""

    def __init__(self):
        self.calls = []
        self.busy = set()

    def get_application_job_names(self):
        return set(self.busy)

    def stop_application(self, application, trigger=True):
        self.calls.append(('stop_application', application.application_name))

    def default_restart_application(self, application, trigger=True):
        self.calls.append(('restart_application', application.application_name))

    def default_restart_process(self, process, trigger=True):
        self.calls.append(('restart_process', process.namespec))

    def next(self):
        pass

    def on_event(self, *args, **kwargs):
        pass

    def in_progress(self):
        return bool(self.busy)

    def check(self):
        pass

    def abort(self):
        pass

    def on_instances_invalidation(self, *args, **kwargs):
        pass


class Harness:
    def __init__(self, strategies, sequences, states):
        from clustersim.solo import make_solo
        progs = {app: {p: {} for p in procs} for app, procs in APPS.items()}
        self.strategies, self.sequences = dict(strategies), dict(sequences)
        self.world, self.inst = make_solo(2, progs, rules_xml(strategies, sequences), local_programs={'other': {'x': {}}})
        self.sv = self.inst.supvisors
        for _ in range(11):
            self.world.advance()
        self.peer = self.world.instances[1].identifier
        self.clock = 1000.0
        self.state = dict(states)
        self.ops = []
        self.flags = set()
        # model
        self.stop, self.restart_app, self.restart_proc, self.cont = set(), set(), set(), set()
        from supvisors.ttypes import SupvisorsInstanceStates as S
        with self.world.as_current(self.inst):
            status = self.sv.context.instances[self.peer]
            status.state = S.CHECKING
            infos = [self._info(app, p, self.state[p]) for app, procs in APPS.items() for p in procs]
            self.sv.fsm.on_all_process_info(status, infos)
            status.state = S.CHECKED
            status.state = S.RUNNING
            self.rec = Recorder()
            self.sv.starter = self.rec
            self.sv.stopper = self.rec
        self.handler = self.sv.failure_handler

    def close(self):
        self.world.close()

    def _info(self, app, proc, state):
        self.clock += 1.0
        now = self.clock
        return {'name': proc, 'group': app, 'state': state, 'statename': NAMES[state], 'start': int(now) - 5,
                'stop': int(now) - 2 if state in (EXITED, FATAL) else 0, 'now': int(now),
                'pid': 4242 if state == RUNNING else 0, 'description': 'generated', 'spawnerr': '', 'expected': True,
                'start_monotonic': now - 5, 'stop_monotonic': 0.0, 'now_monotonic': now, 'extra_args': '',
                'startsecs': 1, 'stopwaitsecs': 10, 'process_index': 0, 'program_name': proc, 'disabled': False,
                'has_stdout': False, 'has_stderr': False}

    # --- helpers of the model
    @staticmethod
    def app_of(proc):
        return next(a for a, ps in APPS.items() if proc in ps)

    def sequenced(self, proc):
        return self.sequences[proc] > 0

    def app_stopped(self, app):
        return all(self.state[p] != RUNNING for p in APPS[app])

    def model_add(self, strategy, proc):
        app = self.app_of(proc)
        if strategy == 'STOP_APPLICATION':
            self.stop.add(app)
            self.restart_app.discard(app)
            self.restart_proc -= set(APPS[app])
            self.cont -= set(APPS[app])
        elif strategy == 'RESTART_APPLICATION':
            if app in self.stop:
                return
            self.restart_app.add(app)
            for p in APPS[app]:
                if self.sequenced(p):
                    self.restart_proc.discard(p)
                    self.cont.discard(p)
        elif strategy == 'RESTART_PROCESS':
            if app in self.stop or (app in self.restart_app and self.sequenced(proc)):
                return
            self.restart_proc.add(proc)
            self.cont.discard(proc)
        else:
            if app in self.stop or (app in self.restart_app and self.sequenced(proc)) or proc in self.restart_proc:
                return
            self.cont.add(proc)

    # --- operations
    def apply(self, op):
        self.ops.append(list(op))
        kind = op[0]
        with self.world.as_current(self.inst):
            return getattr(self, 'op_' + kind)(*op[1:])

    def _process(self, proc):
        app = self.app_of(proc)
        return self.sv.context.applications[app].processes[proc]

    def op_event(self, proc, state):
        app = self.app_of(proc)
        payload = {'identifier': self.peer, 'nick_identifier': 's2', 'name': proc, 'group': app, 'state': state,
                   'now': int(self.clock) + 1, 'now_monotonic': self.clock + 1, 'pid': 4242, 'expected': True,
                   'spawnerr': '', 'extra_args': '', 'disabled': False}
        self.clock += 1.0
        self.sv.fsm.on_process_state_event(self.sv.context.instances[self.peer], payload)
        self.state[proc] = state

    def op_add_default(self, proc):
        strategy = self.strategies[proc]
        self.handler.add_default_job(self._process(proc))
        self.model_add(strategy, proc)
        if strategy == 'RESTART_PROCESS' and self.app_stopped(self.app_of(proc)) and self.sequenced(proc):
            self.model_add('RESTART_APPLICATION', proc)
            self.flags.add('promotion')
        self.flags.add('add:' + strategy)

    def op_add_job(self, strategy, proc):
        from supvisors.ttypes import RunningFailureStrategies
        self.handler.add_job(RunningFailureStrategies[strategy], self._process(proc))
        self.model_add(strategy, proc)
        self.flags.add('add:' + strategy)

    def op_trigger(self, busy):
        self.rec.busy = set(busy)
        self.rec.calls = []
        self.handler.trigger_jobs()
        expected = []
        for app in sorted(self.stop):
            if app not in busy:
                expected.append(('stop_application', app))
        self.stop = {a for a in self.stop if a in busy}
        for app in sorted(self.restart_app):
            if app not in busy:
                expected.append(('restart_application', app))
        self.restart_app = {a for a in self.restart_app if a in busy}
        for proc in sorted(self.restart_proc):
            if self.app_of(proc) not in busy:
                expected.append(('restart_process', f'{self.app_of(proc)}:{proc}'))
        self.restart_proc = {p for p in self.restart_proc if self.app_of(p) in busy}
        self.cont = set()
        got = sorted(self.rec.calls)
        if busy:
            self.flags.add('deferred-trigger')
        if got != sorted(expected):
            return ('handler:trigger-differs', f'trigger with busy applications {sorted(busy)}: the handler asked for {got}, '
                    f'the model expects {sorted(expected)}')
        if len(got) != len(set(got)):
            return ('handler:action-triggered-twice', f'{got}')
        return None

    def op_abort(self):
        self.handler.abort()
        self.stop, self.restart_app, self.restart_proc, self.cont = set(), set(), set(), set()

    # --- comparison of the job sets
    def check(self):
        h = self.handler
        real = ({a.application_name for a in h.stop_application_jobs},
                {a.application_name for a in h.restart_application_jobs},
                {p.process_name for p in h.restart_process_jobs},
                {p.process_name for p in h.continue_process_jobs})
        model = (self.stop, self.restart_app, self.restart_proc, self.cont)
        # invariant of the statement: one action per application by precedence
        for app in real[0]:
            if app in real[1] or any(p in real[2] or p in real[3] for p in APPS[app]):
                return ('handler:precedence-broken', f'{app} in stop_application_jobs together with other jobs: {real}')
        for app in real[1]:
            if any((p in real[2] or p in real[3]) and self.sequenced(p) for p in APPS[app]):
                return ('handler:precedence-broken', f'{app} in restart_application_jobs together with jobs of its '
                        f'sequenced processes: {real}')
        if real[2] & real[3]:
            return ('handler:precedence-broken', f'process both in restart_process_jobs and continue_process_jobs: {real}')
        if real != model:
            names = ('stop_application', 'restart_application', 'restart_process', 'continue_process')
            diff = {n: (sorted(r), sorted(m)) for n, r, m in zip(names, real, model) if r != m}
            return ('handler:job-sets-differ', f'(handler, model) {diff} after {self.ops[-1]}; process states {self.state}, '
                    f'strategies {self.strategies}, sequences {self.sequences}')
        if len({self.strategies[p] for ps in APPS.values() for p in ps}) >= 2:
            self.flags.add('several-strategies')
        return None

    def nontrivial(self):
        adds = [o for o in self.ops if o[0] in ('add_default', 'add_job')]
        return len({o[-1] for o in adds}) >= 2 and any(o[0] == 'trigger' for o in self.ops)


ALL_PROCS = [p for ps in APPS.values() for p in ps]
setup_st = st.fixed_dictionaries({
    'strategies': st.fixed_dictionaries({p: st.sampled_from(STRATEGIES) for p in ALL_PROCS}),
    'sequences': st.fixed_dictionaries({p: st.sampled_from([0, 1, 2]) for p in ALL_PROCS}),
    'states': st.fixed_dictionaries({p: st.sampled_from([RUNNING, RUNNING, STOPPED]) for p in ALL_PROCS})})


def make_machine(triage, result):
    class HandlerMachine(RuleBasedStateMachine):
        def __init__(self):
            super().__init__()
            self.h = None
            self.setup_case = None
            self.dead = False

        @precondition(lambda self: self.h is None)
        @rule(case=setup_st)
        def setup(self, case):
            self.setup_case = case
            self.h = Harness(case['strategies'], case['sequences'], case['states'])

        def _do(self, op):
            if self.h is None or self.dead:
                return
            try:
                bad = self.h.apply(op) or self.h.check()
            except Exception as exc:
                from vlib.diag import exception_signature
                bad = exception_signature(exc)
            if bad:
                self.dead = True
                triage.report(bad[0], bad[1], {'handler_case': self.setup_case, 'handler_ops': self.h.ops})

        @precondition(lambda self: self.h is not None)
        @rule(proc=st.sampled_from(ALL_PROCS))
        def add_default(self, proc):
            self._do(('add_default', proc))

        @precondition(lambda self: self.h is not None)
        @rule(strategy=st.sampled_from(STRATEGIES), proc=st.sampled_from(ALL_PROCS))
        def add_job(self, strategy, proc):
            self._do(('add_job', strategy, proc))

        @precondition(lambda self: self.h is not None)
        @rule(busy=st.lists(st.sampled_from(sorted(APPS)), max_size=2, unique=True))
        def trigger(self, busy):
            self._do(('trigger', sorted(busy)))

        @precondition(lambda self: self.h is not None)
        @rule()
        def abort(self):
            self._do(('abort',))

        @precondition(lambda self: self.h is not None)
        @rule(proc=st.sampled_from(ALL_PROCS), state=st.sampled_from([RUNNING, STOPPED, EXITED, FATAL]))
        def event(self, proc, state):
            self._do(('event', proc, state))

        def teardown(self):
            if self.h is not None:
                h = self.h
                result.note(('handler', h.ops), h.nontrivial(),
                            sample={'handler_case': self.setup_case, 'handler_ops': h.ops[:10]} if h.nontrivial() else None)
                result.classes['handler-histories'] += 1
                for f in h.flags:
                    result.classes['handler:' + f] += 1
                h.close()
                self.h = None

    return HandlerMachine


def run_part_a(ctx, result, triage):
    n_examples = ctx.scale(600, 20000)
    phases = [Phase.generate] if ctx.tier == 'quick' else [Phase.generate, Phase.shrink]

    def go():
        machine = hypothesis.seed(ctx.hyp_seed + 31 + 7919 * len(result.findings))(make_machine(triage, result))
        run_state_machine_as_test(machine, settings=settings(
            max_examples=n_examples, stateful_step_count=30, deadline=None, database=None,
            report_multiple_bugs=False, phases=phases, suppress_health_check=list(HealthCheck), print_blob=False))

    triage.collect(go)


def replay_a(case) -> list:
    c = case['handler_case']
    h = Harness(c['strategies'], c['sequences'], {k: int(v) for k, v in c['states'].items()})
    try:
        for op in case['handler_ops']:
            op = tuple(op)
            try:
                bad = h.apply(op) or h.check()
            except Exception as exc:
                from vlib.diag import exception_signature
                bad = exception_signature(exc)
            if bad:
                return [Finding(bad[0], bad[1], case)]
    finally:
        h.close()
    return []
