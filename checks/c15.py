"""C15 - Application state and operational status follow their definition (differential + hostile formulas)."""
from __future__ import annotations

import re
import sys

import hypothesis
from hypothesis import given, settings, strategies as st, Phase, HealthCheck

from vlib.core import ShardCtx, ShardResult, Triage, Finding
from vlib.diag import exception_signature

PROPERTY_ID = 'C15'
LEVEL = 'exploration'
RULE = ('Hypothesis: (A) vectors of 1-6 real ProcessStatus objects (state incl. forced state, expected_exit, required, '
        'start_sequence 0 / > 0, managed or not) - application state and required-based major / minor failure are '
        'recomputed from the statement; (B) formula trees from a grammar (and / or / not / any / all over exact names '
        'and patterns matching none / one / several processes, nested calls) evaluated by a harness evaluator on the '
        'generated tree: major_failure == not reference(tree), and True when the documented typing is violated or a '
        'pattern matches nothing; (C) ill-formed and hostile strings (mutations of valid formulas, a dictionary of '
        'Python constructs, arbitrary text): setting + evaluating either is rejected with ApplicationStatusParseError '
        'at load or yields a boolean major failure - no other exception - and executes nothing else (sys.addaudithook '
        'monitor: only compile / exec of all([...]) / any([...]) over booleans and regex compilation allowed). '
        'Non-trivial = vector with >= 2 different states and a required process, or a formula of depth >= 2, or a '
        'hostile string the parser accepts; distinct = distinct inputs.')
ASSUMPTIONS = ['a formula leaf is true iff the process is STARTING / BACKOFF / RUNNING or EXITED as expected (code '
               'semantics; the documentation does not define it)',
               'minor failure is only checked without formula',
               'patterns are syntactically valid regular expressions in (B); invalid ones only in (C)']
SHARDS = {'quick': 8, 'thorough': 16}

STOPPED, STARTING, RUNNING, BACKOFF, STOPPING, EXITED, FATAL, UNKNOWN = 0, 10, 20, 30, 40, 100, 200, 1000
STATES = [STOPPED, STARTING, RUNNING, BACKOFF, STOPPING, EXITED, FATAL, UNKNOWN]
NAMES = ['alpha', 'alpha_1', 'beta', 'beta_2', 'gamma', 'delta_x']


class _Logger:
    level = 20

    def _n(self, *a, **k):
        pass
    critical = error = warn = info = debug = trace = blather = log = _n


class _Sv:
    def __init__(self):
        self.logger = _Logger()
        self.supervisor_data = None


SV = _Sv()


def build(procs, managed, formula):
    """procs: list of (name, state, forced_state|None, expected, required, seq). Returns (application, set_error)."""
    from supvisors.application import ApplicationRules, ApplicationStatus
    from supvisors.process import ProcessRules, ProcessStatus
    from supvisors.ttypes import ApplicationStatusParseError
    rules = ApplicationRules(SV)
    rules.managed = managed
    set_error = None
    if formula is not None:
        try:
            rules.status_formula = formula
        except ApplicationStatusParseError as exc:
            set_error = exc
    app = ApplicationStatus('app', rules, SV)
    for name, state, forced, expected, required, seq in procs:
        prules = ProcessRules(SV)
        prules.required = required and seq > 0
        prules.start_sequence = seq
        prules.stop_sequence = seq
        proc = ProcessStatus('app', name, prules, SV)
        proc._state = state
        proc.forced_state = forced
        proc.expected_exit = expected
        app.processes[name] = proc
    app.update_sequences()
    return app, set_error


def displayed(p):
    return p[2] if p[2] is not None else p[1]


def ref_state(procs):
    ds = [displayed(p) for p in procs]
    if STOPPING in ds:
        return 'STOPPING'
    if STARTING in ds or BACKOFF in ds:
        return 'STARTING'
    if RUNNING in ds:
        return 'RUNNING'
    return 'STOPPED'


def in_failure(p):
    d = displayed(p)
    return d in (FATAL, UNKNOWN) or (d == EXITED and not p[3])


def ref_required(procs, managed):
    state = ref_state(procs)
    major = False
    minor = False
    for p in procs:
        required = p[4] and p[5] > 0
        if in_failure(p):
            if required:
                major = True
            elif managed:
                minor = True
        elif displayed(p) == STOPPED and required and state != 'STOPPED':
            major = True
    if major:
        minor = False
    return major, minor


def leaf_true(p):
    d = displayed(p)
    return d in (STARTING, RUNNING, BACKOFF) or (d == EXITED and p[3])


# ---------------------------------------------------------------------------------------------------------------------
# formula grammar: tree nodes are ('leaf', text) ('not', x) ('and'|'or', [x...]) ('all'|'any', x)
PATTERNS = ['alpha.*', 'beta.*', '.*', '.*_\\d', 'gam+a', 'zeta.*', 'alpha', 'nothing', 'delta_.', '(alpha|beta)']


@st.composite
def tree_st(draw, depth=0, in_call=False):
    if depth >= 3 or draw(st.integers(0, 9)) < 3:
        # under any / all patterns are frequent, elsewhere exact names (a list outside a call is a typing violation,
        # still generated but less often)
        pool = (PATTERNS * 3 + NAMES) if in_call else (NAMES * 4 + PATTERNS)
        return ('leaf', draw(st.sampled_from(pool)))
    kind = draw(st.sampled_from(['not', 'and', 'or', 'all', 'any']))
    if kind == 'not':
        return ('not', draw(tree_st(depth + 1)))
    if kind in ('and', 'or'):
        n = draw(st.integers(2, 3))
        return (kind, [draw(tree_st(depth + 1)) for _ in range(n)])
    return (kind, draw(tree_st(depth + 1, True)))


def render(tree):
    kind = tree[0]
    if kind == 'leaf':
        return repr(tree[1])
    if kind == 'not':
        return f'not ({render(tree[1])})'
    if kind in ('and', 'or'):
        return '(' + f' {kind} '.join(render(x) for x in tree[1]) + ')'
    return f'{kind}({render(tree[1])})'


def depth_of(tree):
    kind = tree[0]
    if kind == 'leaf':
        return 0
    if kind in ('and', 'or'):
        return 1 + max(depth_of(x) for x in tree[1])
    return 1 + depth_of(tree[1])


class Unresolvable(Exception):
    pass


def ref_eval(tree, procs):
    """Reference evaluator from the documentation: returns bool or list of bools; raises Unresolvable."""
    kind = tree[0]
    by_name = {p[0]: p for p in procs}
    if kind == 'leaf':
        text = tree[1]
        if text in by_name:
            return leaf_true(by_name[text])
        matches = [p for p in procs if re.match(r'^%s$' % text, p[0])]
        if not matches:
            raise Unresolvable('no match')
        if len(matches) == 1:
            return leaf_true(matches[0])
        return [leaf_true(p) for p in matches]
    if kind == 'not':
        v = ref_eval(tree[1], procs)
        if not isinstance(v, bool):
            raise Unresolvable('not on a list')
        return not v
    if kind in ('and', 'or'):
        vals = [ref_eval(x, procs) for x in tree[1]]
        if any(not isinstance(v, bool) for v in vals):
            raise Unresolvable('bool op on a list')
        return all(vals) if kind == 'and' else any(vals)
    v = ref_eval(tree[1], procs)
    if isinstance(v, bool):
        v = [v]
    return all(v) if kind == 'all' else any(v)


# ---------------------------------------------------------------------------------------------------------------------
# side-effect monitor
SAFE_EXEC = re.compile(r'^(all|any)\(\[(True|False)(, (True|False))*\]\)$')
_AUDIT = {'active': False, 'events': []}
_FORBIDDEN_PREFIX = ('os.', 'subprocess.', 'socket.', 'shutil.', 'ctypes.', 'urllib.', 'http.', 'ftplib.', 'pty.',
                     'webbrowser.', 'glob.', 'pathlib.', 'tempfile.', 'fcntl.', 'signal.', 'syslog.', 'winreg.',
                     'msvcrt.', 'resource.', 'sqlite3.', 'smtplib.', 'poplib.', 'imaplib.', 'nntplib.', 'telnetlib.',
                     'mmap.', 'cpython.run_')


def _hook(event, args):
    if not _AUDIT['active']:
        return
    if event in ('compile', 'exec'):
        src = None
        if event == 'compile':
            src = args[0]
            if isinstance(src, bytes):
                src = src.decode('utf-8', 'replace')
            if src is None:
                return      # compilation of an AST object (ast.parse)
            if SAFE_EXEC.match(str(src).strip()):
                return
            # ast.parse of the formula itself also raises 'compile' with the source: recorded by the caller
            if _AUDIT.get('formula') is not None and str(src) == _AUDIT['formula']:
                return
            _AUDIT['events'].append((event, str(src)[:80]))
        else:
            code = args[0]
            name = getattr(code, 'co_name', '')
            fname = getattr(code, 'co_filename', '')
            if fname == '<string>' and name == '<module>':
                return      # the eval of the all([...]) / any([...]) string checked at compile time
            _AUDIT['events'].append((event, f'{fname}:{name}'))
    elif event == 'import':
        _AUDIT['events'].append((event, str(args[0])))
    elif event == 'open' and args and str(args[0]) in ('<unknown>', '<string>'):
        return      # the interpreter looks up the source line when it builds a SyntaxError
    elif event in ('open', 'os.system', 'os.exec', 'os.posix_spawn', 'os.fork', 'os.forkpty', 'os.spawn',
                   'subprocess.Popen', 'socket.connect', 'socket.bind', 'builtins.input', 'builtins.breakpoint'):
        _AUDIT['events'].append((event, str(args[:1])[:80]))
    elif event.startswith(_FORBIDDEN_PREFIX):
        _AUDIT['events'].append((event, ''))


_HOOKED = False


def ensure_hook():
    global _HOOKED
    if not _HOOKED:
        sys.addaudithook(_hook)
        _HOOKED = True


def guarded_eval(procs, managed, formula):
    """Sets and evaluates the formula under the audit monitor. Returns (outcome, app, events)."""
    ensure_hook()
    if not _AUDIT.get('warm'):
        # first use in this process (e.g. the replay of a saved input in the main process): the lazy imports of the
        # harness and of supvisors.application must not be attributed to the formula
        _AUDIT['warm'] = True
        _AUDIT['active'] = False
        try:
            warm_app, _ = build(procs, managed, '"warm-up"')
            warm_app.update()
        except Exception:
            pass
    # warm the regex cache paths etc. outside the monitored window is not possible in general: regex compilation is
    # allowed (sre_* imports happen at interpreter start)
    _AUDIT['events'] = []
    _AUDIT['formula'] = formula
    _AUDIT['active'] = True
    try:
        try:
            app, set_error = build(procs, managed, formula)
            app.update()
            outcome = ('rejected-at-load' if set_error is not None else 'evaluated', None)
        except Exception as exc:      # anything escaping is a violation (reported by the caller)
            outcome = ('exception', exc)
            app = None
    finally:
        _AUDIT['active'] = False
    return outcome, app, list(_AUDIT['events'])


# ---------------------------------------------------------------------------------------------------------------------
proc_st = st.tuples(st.sampled_from(STATES), st.one_of(st.none(), st.none(), st.sampled_from([FATAL, STOPPED, RUNNING])),
                    st.booleans(), st.booleans(), st.sampled_from([0, 1, 2]))


@st.composite
def procs_st(draw, min_size=1):
    names = draw(st.lists(st.sampled_from(NAMES), min_size=min_size, max_size=6, unique=True))
    return [(n,) + draw(proc_st) for n in names]


HOSTILE = ['"a".upper()', 'all()', 'any(x="alpha")', '"("', 'import os', 'pass', '(lambda x: x)("alpha")',
           '__import__("os").system("true")', 'all(__import__("os").listdir("."))', '[x for x in "alpha"]',
           '"alpha" if "beta" else "gamma"', 'all(["alpha", "beta"])', 'any(("alpha", "beta"))', '"alpha"; "beta"',
           '"alpha" and', 'not', 'all("alpha", "beta")', 'all(*["alpha"])', 'all(**{})', 'f"{alpha}"', '"al" "pha"',
           'b"alpha"', '1', 'True', 'None', 'alpha', 'alpha.beta', 'alpha()', 'all.__call__("alpha")', '"alpha"[0]',
           '-"alpha"', '~"alpha"', '"alpha" + "beta"', '"alpha" == "beta"', '"alpha" in "beta"', '(x := "alpha")',
           'open("/tmp/c15_side_effect", "w")', 'exec("import os")', 'eval("1")', 'print("alpha")', '"*"', '"+"',
           '"[a-"', '"(?P<n>"', '"alpha{1,"', '"\\\\"', 'all(not "alpha")', 'any(any("alpha.*"))', 'not not "alpha"',
           '"alpha" or "zeta.*"', 'all(".*") and any("beta.*")', '', ' ', '()', '""', 'all("")', '"\\0"', 'await x',
           'yield', 'del x', 'global x', 'class A: pass', 'def f(): pass', '@x', '"alpha" \\', 'all(\n"alpha"\n)',
           '"alpha" # comment', 'any("alpha", )', 'all("alpha")()', 'all("alpha").real', 'any(all)', 'getattr(all, "x")']


def mutate_st():
    return st.one_of(
        st.sampled_from(HOSTILE),
        st.text(alphabet=st.characters(blacklist_categories=['Cs', 'Cc']), max_size=30),   # XML-representable text
        st.text(alphabet='"\'()[]{}.,:;= andortlyi*+?\\|^$_-1', max_size=40),
        st.tuples(tree_st(), st.integers(0, 200), st.sampled_from(['', '(', ')', '"', ',', '.x', '()', ' or ', '[0]', '='])
                  ).map(lambda t: _splice(render(t[0]), t[1], t[2])))


def _splice(text, pos, frag):
    pos = pos % (len(text) + 1)
    return text[:pos] + frag + text[pos:]


def run_shard(ctx: ShardCtx) -> ShardResult:
    result = ShardResult()
    triage = Triage(ctx, result)
    phases = [Phase.generate] if ctx.tier == 'quick' else [Phase.generate, Phase.shrink]

    def common(n):
        return settings(max_examples=n, deadline=None, database=None, report_multiple_bugs=False, phases=phases,
                        suppress_health_check=list(HealthCheck), print_blob=False)

    def part_a():
        @hypothesis.seed(ctx.hyp_seed + 7919 * len(result.findings))
        @common(ctx.scale(4000, 120000))
        @given(procs_st(), st.booleans())
        def test(procs, managed):
            bad = check_a(procs, managed)
            states = {displayed(p) for p in procs}
            result.note(('A', procs, managed), len(states) >= 2 and any(p[4] and p[5] > 0 for p in procs),
                        sample={'part': 'A', 'procs': procs, 'managed': managed})
            result.classes['A'] += 1
            if bad:
                triage.report(bad[0], bad[1], {'part': 'A', 'procs': procs, 'managed': managed})
        test()

    def part_b():
        @hypothesis.seed(ctx.hyp_seed + 1 + 7919 * len(result.findings))
        @common(ctx.scale(4000, 120000))
        @given(procs_st(min_size=4), tree_st())
        def test(procs, tree):
            bad, klass = check_b(procs, tree)
            result.note(('B', procs, render(tree)), depth_of(tree) >= 2,
                        sample={'part': 'B', 'formula': render(tree), 'procs': procs})
            result.classes['B:' + klass] += 1
            if bad:
                triage.report(bad[0], bad[1], {'part': 'B', 'procs': procs, 'formula': render(tree)})
        test()

    def part_c():
        @hypothesis.seed(ctx.hyp_seed + 2 + 7919 * len(result.findings))
        @common(ctx.scale(5000, 150000))
        @given(procs_st(), mutate_st())
        def test(procs, text):
            bad, klass = check_c(procs, text)
            result.note(('C', text), klass == 'accepted', sample={'part': 'C', 'formula': text})
            result.classes['C:' + klass] += 1
            if bad:
                triage.report(bad[0], bad[1], {'part': 'C', 'procs': procs, 'formula': text})
        test()

    for part in (part_a, part_b, part_c):
        triage.collect(part)
    return result


def check_a(procs, managed):
    try:
        app, _ = build(procs, managed, None)
        app.update()
    except Exception as exc:
        return exception_signature(exc)
    want_state = ref_state(procs)
    got = app.serial()
    if got['statename'] != want_state:
        return ('state', f'application {got["statename"]}, expected {want_state} for displayed states '
                f'{[displayed(p) for p in procs]}')
    major, minor = ref_required(procs, managed)
    if got['major_failure'] != major:
        return ('major:required', f'major_failure={got["major_failure"]}, expected {major}; state={want_state} procs={procs}')
    if got['minor_failure'] != minor:
        return ('minor:required', f'minor_failure={got["minor_failure"]}, expected {minor}; managed={managed} procs={procs}')
    return None


def check_b(procs, tree):
    formula = render(tree)
    outcome, app, events = guarded_eval(procs, True, formula)
    if outcome[0] == 'exception':
        sig, detail = exception_signature(outcome[1])
        return (sig, f'formula {formula!r}: {detail}'), 'exception'
    if outcome[0] == 'rejected-at-load':
        return ('formula:valid-rejected', f'well-formed formula {formula!r} rejected at load'), 'rejected'
    if events:
        return ('formula:side-effect', f'formula {formula!r} caused {events[:3]}'), 'side-effect'
    try:
        want = ref_eval(tree, procs)
        if not isinstance(want, bool):
            raise Unresolvable('list at top level')
        expected_major = not want
        klass = 'resolved'
    except Unresolvable:
        expected_major = True
        klass = 'unresolvable'
    got = app.serial()['major_failure']
    if got != expected_major:
        return ('formula:value', f'formula {formula!r} over {[(p[0], displayed(p), p[3]) for p in procs]}: major_failure='
                f'{got}, expected {expected_major} ({klass})'), klass
    if app.serial()['statename'] != ref_state(procs):
        return ('state', f'application state {app.serial()["statename"]} != {ref_state(procs)}'), klass
    return None, klass


def check_c(procs, text):
    outcome, app, events = guarded_eval(procs, True, text)
    if outcome[0] == 'exception':
        sig, detail = exception_signature(outcome[1])
        return ('formula:' + sig, f'formula {text!r}: {detail}'), 'exception'
    if events:
        return ('formula:side-effect', f'formula {text!r} caused {events[:3]}'), 'side-effect'
    serial = app.serial()
    if not isinstance(serial['major_failure'], bool):
        return ('formula:non-boolean', f'formula {text!r}: major_failure={serial["major_failure"]!r}'), 'non-boolean'
    if outcome[0] == 'rejected-at-load':
        # the required-based status applies
        major, minor = ref_required(procs, True)
        if serial['major_failure'] != major:
            return ('major:required', f'rejected formula {text!r}: major {serial["major_failure"]} != {major}'), 'rejected'
        return None, 'rejected'
    return None, 'accepted'


def replay(case) -> list:
    procs = [tuple(p) for p in case['procs']]
    if case['part'] == 'A':
        bad = check_a(procs, case['managed'])
    elif case['part'] == 'C':
        bad, _ = check_c(procs, case['formula'])
    else:
        # re-parse is not needed: the formula string is evaluated as hostile text against the same oracle family
        bad, _ = check_c(procs, case['formula'])
    return [Finding(bad[0], bad[1], case)] if bad else []
