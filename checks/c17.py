"""C17 - XML-RPC commands are gated by Supvisors state and fail cleanly (cluster simulator, golden gating table)."""
from hypothesis import strategies as st

from clustersim.episode import Profile, episode_st, STARTING, CONCILIATION, RPC_SIGNATURES, nick
from clustersim.world import Monitor
from checks.cluster import EpisodeCheck, fault_classes

PROPERTY_ID = 'C17'
LEVEL = 'exploration'
RULE = ('Hypothesis-generated episodes on the cluster simulator (2-4 real instances brought to every Supvisors state by a '
        'real history: late boots, crashes, restarts, conflicts created by direct Supervisor starts with the USER '
        'conciliation, slow stops during restart / shutdown, USER synchronisation) with storms of XML-RPCs on Master and '
        'non-Master instances, and with whole rows of the method x state matrix (rpc_sweep: every method on one instance '
        'within the same second, conflicts built on purpose to hold CONCILIATION): every public method with valid and invalid parameter values (unknown application / '
        'process / program / instance names, unknown strategy strings and integers, unmanaged applications). Oracle per '
        'call, from a golden table transcribed from the property statement and docs/xml_rpc.rst (never from _check_*): '
        'outside the documented states the call raises BAD_SUPVISORS_STATE; inside them it does not (except the '
        'documented no-Master case of restart / shutdown and the end_sync conditions), a name unknown to the whole '
        'configuration raises BAD_NAME, an unknown strategy INCORRECT_PARAMETERS, an unmanaged application NOT_MANAGED; '
        'and any call rejected with one of these four faults emits no request (start, stop, restart, shutdown, ...), '
        'leaves the FSM state, the Master and the Starter / Stopper activity unchanged. Non-trivial = episode with a '
        'rejected-by-state call and an accepted call of gated methods; distinct = distinct (method, state, Master?, '
        'parameter class) cells are reported in the evidence classes.')
ASSUMPTIONS = ['XML-RPC parameters have the documented XML-RPC types (wrong types are covered by C16)',
               'names present in the generated configuration may be known or not to a given instance (instances know '
               'different programs): BAD_NAME is only demanded for names absent from the whole configuration',
               'FINAL is not judged for the "from DISTRIBUTION on" methods (the statement does not say)']
SHARDS = {'quick': 16, 'thorough': 16}

BAD_SUPVISORS_STATE, NOT_MANAGED, NOT_APPLICABLE = 101, 102, 104
INCORRECT_PARAMETERS, BAD_NAME, SHUTDOWN_STATE = 2, 10, 6
REJECT_CODES = (BAD_SUPVISORS_STATE, NOT_MANAGED, INCORRECT_PARAMETERS, BAD_NAME)

FROM_DIST = ('DISTRIBUTION', 'OPERATION', 'CONCILIATION', 'RESTARTING', 'SHUTTING_DOWN')
GATES = {}
for _m in ('get_all_applications_info', 'get_application_info', 'get_application_rules', 'get_all_process_info',
           'get_process_info', 'get_process_rules', 'get_conflicts', 'restart', 'shutdown'):
    GATES[_m] = FROM_DIST
for _m in ('start_application', 'test_start_application', 'restart_application', 'start_process', 'test_start_process',
           'start_any_process', 'restart_process', 'update_numprocs', 'enable', 'disable', 'restart_sequence'):
    GATES[_m] = ('OPERATION',)
for _m in ('stop_application', 'stop_process'):
    GATES[_m] = ('OPERATION', 'CONCILIATION')
GATES['conciliate'] = ('CONCILIATION',)
GATES['end_sync'] = ('SYNCHRONIZATION',)
# BAD_SUPVISORS_STATE is also documented inside the allowed states for these
STATE_FAULT_DOCUMENTED = ('restart', 'shutdown', 'end_sync', 'restart_sequence')   # no Master / ending / jobs in progress
EFFECT_REQUESTS = ('START_PROCESS', 'STOP_PROCESS', 'RESTART', 'SHUTDOWN', 'RESTART_ALL', 'SHUTDOWN_ALL',
                   'RESTART_SEQUENCE', 'CHECK_INSTANCE')


class P(Profile):
    n_min = 2
    n_max = 4
    user_ops = ('rpc_fuzz', 'rpc_fuzz', 'rpc_fuzz', 'rpc', 'end_sync')
    fault_ops = ('crash', 'restart', 'boot')
    proc_ops = ('direct_start', 'direct_start', 'exit')
    op_rate = 0.8
    ops_per_step_max = 4
    steps_max = 50
    warmups = (0, 0, 15, 30, 45)
    hold_rate = 0.05
    order_rate = 0.1
    inject_rate = 0.05
    known_subsets = True
    multi_instance_node = 0.3
    sv_failure = ('CONTINUE', 'RESYNC')
    sync_sets = ('TIMEOUT', 'LIST,TIMEOUT', 'USER', 'USER,TIMEOUT', 'STRICT,USER')
    conciliation = ('USER', 'USER', 'SENICIDE', 'INFANTICIDE')
    starting = tuple(STARTING)
    unkillable = True
    default_behaviours = ('run', 'run', 'very_slow_stop')
    stopwaitsecs = (1, 7, 12)
    late_boot = 0.3
    managed = 0.75


class PLate(P):
    """Long stays in the late states: settled cluster, conflicts kept by the USER conciliation, stops that last."""
    warmups = (45, 45, 60)
    rpc_rare = ('restart', 'shutdown', 'restart_sequence')
    conciliation = ('USER',)
    fault_ops = ('crash',)
    proc_ops = ('direct_start', 'direct_start')
    user_ops = ('rpc_fuzz',) * 9 + ('rpc_end',)
    default_behaviours = ('very_slow_stop', 'unkillable', 'run')
    sync_sets = ('TIMEOUT', 'LIST,TIMEOUT')
    late_boot = 0.0
    op_rate = 0.8
    managed = 0.65


class PDist(P):
    """Long DISTRIBUTION phases: the storm begins when the cluster has just formed and children take long to start."""
    warmups = (18, 22, 26, 30)
    startsecs = (6, 12, 12)
    sequences = (1, 2, 3)
    rpc_rare = ('restart', 'shutdown')
    fault_ops = ('crash',)
    proc_ops = ('exit',)
    user_ops = ('rpc_fuzz', 'rpc_fuzz', 'rpc_fuzz', 'rpc_fuzz', 'rpc')
    sync_sets = ('TIMEOUT', 'LIST,TIMEOUT')
    late_boot = 0.0
    managed = 1.0
    op_rate = 0.7
    steps_max = 40


class PSweepLate(PLate):
    """Rows of the method x state matrix in the late states: conflicts are built on purpose (a child truly RUNNING is
    started directly on another instance, USER conciliation keeps them) and every XML-RPC is called on one instance
    within the same second, before and after a restart / shutdown whose stops last."""
    proc_ops = ('make_conflict', 'make_conflict', 'exit')
    fault_ops = ()
    user_ops = ('rpc_sweep',) * 14 + ('rpc_end',)
    sweep_states = (('CONCILIATION',), ('CONCILIATION',), ('CONCILIATION', 'RESTARTING', 'SHUTTING_DOWN', 'FINAL'),
                    ('RESTARTING', 'SHUTTING_DOWN', 'FINAL'))
    known_subsets = False
    managed = 0.85
    op_rate = 0.6
    ops_per_step_max = 2
    steps_max = 30
    hold_rate = 0.0
    inject_rate = 0.0


class PSweepEarly(P):
    """Rows of the matrix in the early states (OFF, SYNCHRONIZATION, ELECTION, DISTRIBUTION with slow children)."""
    warmups = (0, 3, 8, 14, 18, 22)
    startsecs = (6, 12)
    sequences = (1, 2, 3)
    fault_ops = ('crash', 'boot')
    proc_ops = ()
    user_ops = ('rpc_sweep', 'rpc_sweep', 'rpc_sweep', 'end_sync')
    op_rate = 0.5
    ops_per_step_max = 1
    steps_max = 30
    managed = 1.0


class GateMonitor(Monitor):
    def __init__(self, config):
        self.config = config
        self.findings = []
        self.cells = set()
        self.flags = set()
        self.call = None
        self.apps = {a['name']: a for a in config.get('apps', [])}
        self.specs = {f"{a['name']}:{p['name']}" for a in config.get('apps', []) for p in a['programs']}
        self.programs = {p['name'] for a in config.get('apps', []) for p in a['programs']}
        self.idents = set()
        for i in range(config['n']):
            self.idents.update({nick(i), f'host{config["nodes"][i] + 1}:{60001 + i}'})

    # --- parameter classes (harness side)
    def _classify(self, method, args):
        """-> set of classes among unknown-name, bad-strategy, unmanaged, and 'plain'."""
        kinds = RPC_SIGNATURES.get(method)
        out = set()
        if kinds is None or len(kinds) != len(args):
            return {'unclassified'}
        for kind, value in zip(kinds, args):
            if kind == 'app':
                if value not in self.apps:
                    out.add('unknown-name')
                elif not self.apps[value].get('managed', True) or not self.config.get('apps'):
                    out.add('unmanaged')
            elif kind == 'namespec':
                if not isinstance(value, str):
                    out.add('unclassified')
                    continue
                app, sep, proc = value.partition(':')
                if not sep:
                    # Supervisor convention: "name" = group name and process name
                    app, proc = value, value
                if app not in self.apps:
                    out.add('unknown-name')
                elif proc not in ('*', '') and f'{app}:{proc}' not in self.specs:
                    out.add('unknown-name')
            elif kind == 'program':
                if value not in self.programs:
                    out.add('unknown-name')
            elif kind == 'ident':
                if value not in self.idents:
                    out.add('unknown-name' if value != '10.0.0.1' else 'unclassified')
            elif kind in ('strategy', 'conciliation'):
                names = STARTING if kind == 'strategy' else CONCILIATION
                ok = (isinstance(value, str) and value in names) or \
                     (isinstance(value, int) and not isinstance(value, bool) and 0 <= value < len(names))
                if not ok:
                    out.add('bad-strategy')
        return out or {'plain'}

    # --- call bracket
    def on_user_rpc_begin(self, inst, name, args):
        self.call = None
        if not name.startswith('supvisors.') or not inst.alive or inst.supvisors is None:
            return
        sv = inst.supvisors
        self.call = {'method': name.split('.', 1)[1], 'args': args, 'state': sv.fsm.state.name,
                     'master': sv.state_modes.master_identifier, 'is_master': sv.state_modes.is_master(),
                     'starting': sv.starter.in_progress(), 'stopping': sv.stopper.in_progress(), 'requests': []}

    def on_request(self, inst, identifier, rtype, body):
        if self.call is not None:
            self.call['requests'].append((rtype.name, identifier, body))

    def on_user_rpc(self, inst, name, args, outcome):
        call, self.call = self.call, None
        if call is None or outcome[0] in ('down', 'unmarshallable'):
            return
        if outcome[0] == 'exc':
            # "fail cleanly": nothing but an RPCError may come out of an XML-RPC (bucketed per method and exception type)
            exc_type = str(outcome[1]).split('(', 1)[0]
            self.findings.append((f'unclean-failure:{call["method"]}:{exc_type}', f't={inst.world.now} {inst.nick} '
                                  f'({call["state"]}) supvisors.{call["method"]}{tuple(args)!r} raises {outcome[1]}'))
            return
        method, state = call['method'], call['state']
        if method not in RPC_SIGNATURES:
            return
        w = inst.world
        code = outcome[1] if outcome[0] == 'fault' else None
        classes = self._classify(method, args)
        where = (f't={w.now} {inst.nick} ({state}, {"Master" if call["is_master"] else "not Master"}) '
                 f'supvisors.{method}{tuple(args)!r} -> {outcome[0]}{"" if code is None else " " + str(code)}')
        gate = GATES.get(method)
        allowed = True
        if gate is not None:
            allowed = state in gate
            if method == 'end_sync':
                allowed = allowed and 'USER' in self.config['options']['synchro_options']
            if state == 'FINAL' and gate is FROM_DIST:
                allowed = None
        pclass = '+'.join(sorted(classes))
        self.cells.add((method, state, call['is_master'], pclass, 'fault' if code else 'ok'))
        if gate is not None and allowed is False:
            self.flags.add('rejected-by-state')
            # docs/xml_rpc.rst: end_sync without the USER option raises NOT_APPLICABLE (in SYNCHRONIZATION)
            accepted = (BAD_SUPVISORS_STATE, NOT_APPLICABLE) if method == 'end_sync' and state in gate \
                else (BAD_SUPVISORS_STATE,)
            if code not in accepted:
                self.findings.append((f'not-gated:{method}:{state}', f'{where}: BAD_SUPVISORS_STATE ({BAD_SUPVISORS_STATE}) '
                                      f'expected, the method is documented for {list(gate)}'))
        elif allowed:
            if gate is not None:
                self.flags.add('served-in-state')
            if code == BAD_SUPVISORS_STATE and method not in STATE_FAULT_DOCUMENTED:
                self.findings.append((f'gated-in-documented-state:{method}:{state}', f'{where}: the method is documented '
                                      f'as available in {state}'))
            elif 'unclassified' not in classes:
                unknown, bad, unmanaged = 'unknown-name' in classes, 'bad-strategy' in classes, 'unmanaged' in classes
                expected = set()
                if unknown:
                    expected.add(BAD_NAME)
                if bad:
                    expected.add(INCORRECT_PARAMETERS)
                if unmanaged and not unknown and method in ('start_application', 'stop_application',
                                                             'restart_application', 'test_start_application'):
                    expected.add(NOT_MANAGED)
                if method == 'end_sync' or code == SHUTDOWN_STATE:
                    expected = set()      # Supervisor itself answers SHUTDOWN_STATE once it is stopping
                if expected and code not in expected:
                    self.findings.append((f'invalid-parameter-accepted:{method}:{pclass}', f'{where}: fault in '
                                          f'{sorted(expected)} expected ({pclass})'))
        # a rejected request has no effect
        if code in REJECT_CODES or (method == 'end_sync' and code == NOT_APPLICABLE):
            sv = inst.supvisors
            effects = [r for r in call['requests'] if r[0] in EFFECT_REQUESTS]
            after = (sv.fsm.state.name, sv.state_modes.master_identifier, sv.starter.in_progress(),
                     sv.stopper.in_progress())
            before = (state, call['master'], call['starting'], call['stopping'])
            if effects:
                self.findings.append((f'rejected-call-has-effect:{method}:requests', f'{where}: requests emitted during '
                                      f'the rejected call: {effects[:4]}'))
            elif after != before:
                self.findings.append((f'rejected-call-has-effect:{method}:state', f'{where}: (state, Master, starting, '
                                      f'stopping) {before} -> {after}'))

    def finish(self, world):
        return list(self.findings)


def make_monitors(episode):
    return [GateMonitor(episode['config'])]


def evaluate(runner, monitors):
    seen = set()
    for sig, detail in monitors[0].finish(runner.world):
        if sig not in seen:
            seen.add(sig)
            yield sig, detail


def classify(runner, monitors, episode):
    mon = monitors[0]
    classes = fault_classes(runner) + sorted(mon.flags)
    gated = {(m, s) for (m, s, _master, _p, _o) in mon.cells if m in GATES}
    classes += sorted({f'state:{s}' for (_m, s) in gated})
    classes += sorted({f'cell:{m}@{s}' for (m, s) in gated})
    nontrivial = 'rejected-by-state' in mon.flags and 'served-in-state' in mon.flags
    return nontrivial, classes


CHECK = EpisodeCheck(PROPERTY_ID, st.one_of(episode_st(P), episode_st(PLate), episode_st(PDist), episode_st(PSweepLate), episode_st(PSweepEarly)), make_monitors, evaluate, classify, quick=2000, thorough=20000,
                     suffix_kwargs={'ticks': 4, 'boot_dead': False})


def run_shard(ctx):
    return CHECK.run_shard(ctx)


def replay(case):
    return CHECK.replay(case)
