"""C18 - Rules and options resolve totally, in-domain, with documented precedence (differential + metamorphic)."""
from __future__ import annotations

import math
import os
import re
import shutil
import sys
import tempfile
from collections import OrderedDict
from xml.sax.saxutils import escape, quoteattr

import hypothesis
from hypothesis import given, settings, strategies as st, Phase, HealthCheck

from vlib.core import ShardCtx, ShardResult, Triage, Finding
from vlib.diag import exception_signature

PROPERTY_ID = 'C18'
LEVEL = 'exploration'
RULE = ('Hypothesis: (R) abstract rules documents - ordered aliases, models with reference chains of length 0-4 incl. '
        'cycles and unknown names, applications and programs by name and by overlapping patterns, values drawn '
        'in-domain, out-of-domain and malformed - serialised to XML and loaded through the real Parser twice (lxml + '
        'XSD: documents the XSD rejects are counted and skipped; ElementTree with lxml blocked: every well-formed '
        'document is accepted); for generated group / program names the rules obtained through '
        'load_application_rules / load_program_rules are compared with a reference resolver working on the abstract '
        'document (exact name before patterns, longest match with ties accepted, program + at most two models, element '
        'values supersede referenced ones, invalid value = absent, required dropped without start_sequence, '
        'stop_sequence defaults to start_sequence, alias expansion in declaration order); (O) option dictionaries over '
        'the [supvisors] keys with in-range, boundary, out-of-range and malformed strings: in-domain values are '
        'converted per the documented domain, any other value gives exactly the options obtained when the key is '
        'absent, ValueError iff synchro_options ends up empty, CORE / STRICT dropped on empty lists, TIMEOUT forces '
        'CONTINUE, and building the same dictionary twice with other dictionaries in between gives equal options. '
        'Non-trivial = lookup with >= 2 matching patterns or a model chain >= 2 or an invalid value; option '
        'dictionary with >= 1 invalid value; distinct = distinct cases.')
ASSUMPTIONS = ["'#' / '@' sign resolution of homogeneous groups is not generated in this version",
               'patterns are syntactically valid regular expressions without nested quantifiers',
               'ties between patterns: any of the tied elements is accepted']
SHARDS = {'quick': 8, 'thorough': 16}

STARTING_FAILURE = ['ABORT', 'CONTINUE', 'STOP']
RUNNING_FAILURE = ['CONTINUE', 'RESTART_PROCESS', 'STOP_APPLICATION', 'RESTART_APPLICATION', 'SHUTDOWN', 'RESTART']
STARTING = ['CONFIG', 'LESS_LOADED', 'MOST_LOADED', 'LOCAL', 'LESS_LOADED_NODE', 'MOST_LOADED_NODE']
DISTRIBUTION = ['ALL_INSTANCES', 'SINGLE_INSTANCE', 'SINGLE_NODE']


class _Logger:
    level = 20

    def _n(self, *a, **k):
        pass
    critical = error = warn = info = debug = trace = blather = log = _n


class _SupData:
    def autorestart(self, namespec):
        raise KeyError(namespec)


class _Opts:
    def __init__(self, files):
        self.rules_files = files


class _Sv:
    def __init__(self, files):
        self.logger = _Logger()
        self.options = _Opts(files)
        self.supervisor_data = _SupData()


# ---------------------------------------------------------------------------------------------------------------------
# abstract rules documents
NAME_PARTS = ['web', 'db', 'srv', 'app', 'x', '01', '02', 'main', 'bk']
name_st = st.lists(st.sampled_from(NAME_PARTS), min_size=1, max_size=3).map('_'.join)
PATTERN_FRAGMENTS = ['web', 'db', 'srv', '_0', r'_\d+', 'w.b', '.*', 'app_', '_', '0[12]', 'x', '^web', 'main$', 'srv|db',
                     '[a-d]+', r'\w+_01']
pattern_st = st.one_of(st.sampled_from(PATTERN_FRAGMENTS), name_st)

SEQ_VALUES = ['0', '1', '2', '7', '-1', '-5', 'abc', '1.5', '', ' 3 ', '127', '200']
LOAD_VALUES = ['0', '10', '100', '101', '-1', 'abc', '50.0', '']
BOOL_VALUES = ['true', 'false', '1', '0', 'yes', 'no', 'on', 'off', 'maybe', 'TRUE', '']
IDENT_POOL = ['s1', 's2', 's3', '*', 'al1', 'al2', 'al3', 'unknown', '']


XSD_SEQ = ['0', '1', '2', '7', '-1', '-5', '127', ' 3 ']
XSD_LOAD = ['0', '10', '100', '55']
XSD_BOOL = ['true', 'false', '1', '0']


@st.composite
def values_st(draw, kind, strict=False):
    """Generated element values of a program / model element: {tag: text}. ``strict``: XSD-valid lexical forms only
    (out-of-domain values that the XSD accepts, e.g. negative sequences, are kept)."""
    if strict:
        out = {}
        if draw(st.integers(0, 9)) < 5:
            out['start_sequence'] = draw(st.sampled_from(XSD_SEQ))
        if draw(st.integers(0, 9)) < 3:
            out['stop_sequence'] = draw(st.sampled_from(XSD_SEQ))
        if draw(st.integers(0, 9)) < 4:
            out['required'] = draw(st.sampled_from(XSD_BOOL))
        if draw(st.integers(0, 9)) < 3:
            out['wait_exit'] = draw(st.sampled_from(XSD_BOOL))
        if draw(st.integers(0, 9)) < 4:
            out['expected_loading'] = draw(st.sampled_from(XSD_LOAD))
        if draw(st.integers(0, 9)) < 3:
            out['starting_failure_strategy'] = draw(st.sampled_from(STARTING_FAILURE))
        if draw(st.integers(0, 9)) < 3:
            out['running_failure_strategy'] = draw(st.sampled_from(RUNNING_FAILURE))
        if draw(st.integers(0, 9)) < 4:
            out['identifiers'] = ','.join(draw(st.lists(st.sampled_from(IDENT_POOL), min_size=1, max_size=4)))
        return out
    out = {}
    if draw(st.integers(0, 9)) < 5:
        out['start_sequence'] = draw(st.sampled_from(SEQ_VALUES))
    if draw(st.integers(0, 9)) < 3:
        out['stop_sequence'] = draw(st.sampled_from(SEQ_VALUES))
    if draw(st.integers(0, 9)) < 4:
        out['required'] = draw(st.sampled_from(BOOL_VALUES))
    if draw(st.integers(0, 9)) < 3:
        out['wait_exit'] = draw(st.sampled_from(BOOL_VALUES))
    if draw(st.integers(0, 9)) < 4:
        out['expected_loading'] = draw(st.sampled_from(LOAD_VALUES))
    if draw(st.integers(0, 9)) < 3:
        out['starting_failure_strategy'] = draw(st.sampled_from(STARTING_FAILURE + ['abort', 'NONE', '']))
    if draw(st.integers(0, 9)) < 3:
        out['running_failure_strategy'] = draw(st.sampled_from(RUNNING_FAILURE + ['restart', 'X']))
    if draw(st.integers(0, 9)) < 4:
        out['identifiers'] = ','.join(draw(st.lists(st.sampled_from(IDENT_POOL), min_size=1, max_size=4)))
    return out


@st.composite
def doc_st(draw):
    lxml = draw(st.booleans())
    aliases = []
    for k in range(draw(st.integers(0, 3))):
        aliases.append((f'al{k + 1}', ','.join(draw(st.lists(st.sampled_from(['s1', 's2', 's3', 'al1', 'al2', 'al3', 's4']),
                                                                 min_size=1, max_size=3)))))
    models = []
    nmodels = draw(st.integers(0, 5))
    for k in range(nmodels):
        vals = draw(values_st('model', lxml))
        ref = draw(st.sampled_from([None, f'm{(k + 1) % nmodels}', f'm{(k + 1) % nmodels}']
                                   + [f'm{j}' for j in range(nmodels)] + ['ghost']))
        models.append({'name': f'm{k}', 'values': vals, 'reference': ref})
    apps = []
    for _ in range(draw(st.integers(1, 4))):
        by_pattern = draw(st.integers(0, 9)) < 4
        key = draw(pattern_st) if by_pattern else draw(name_st)
        avals = {}
        bad = [] if lxml else ['x']
        if draw(st.integers(0, 9)) < 5:
            avals['start_sequence'] = draw(st.sampled_from(XSD_SEQ if lxml else SEQ_VALUES))
        if draw(st.integers(0, 9)) < 3:
            avals['stop_sequence'] = draw(st.sampled_from(XSD_SEQ if lxml else SEQ_VALUES))
        if draw(st.integers(0, 9)) < 3:
            avals['starting_failure_strategy'] = draw(st.sampled_from(STARTING_FAILURE + bad))
        if draw(st.integers(0, 9)) < 3:
            avals['running_failure_strategy'] = draw(st.sampled_from(RUNNING_FAILURE + bad))
        if draw(st.integers(0, 9)) < 3:
            avals['starting_strategy'] = draw(st.sampled_from(STARTING + bad))
        if draw(st.integers(0, 9)) < 3:
            avals['distribution'] = draw(st.sampled_from(DISTRIBUTION + bad))
        progs = []
        for _p in range(draw(st.integers(0, 4))):
            p_pattern = draw(st.integers(0, 9)) < 5
            pkey = draw(pattern_st) if p_pattern else draw(name_st)
            progs.append({'pattern': p_pattern, 'key': pkey, 'values': draw(values_st('program', lxml)),
                          'reference': draw(st.sampled_from([None, None] + [f'm{j}' for j in range(nmodels)] + ['ghost']))})
        apps.append({'pattern': by_pattern, 'key': key, 'values': avals, 'programs': progs})
    lookups = [(draw(name_st), draw(name_st)) for _ in range(draw(st.integers(1, 4)))]
    # make hits on declared elements likely (exact names, and names built from the same parts for patterns)
    for app in apps:
        for p in app['programs']:
            if draw(st.integers(0, 9)) < 6:
                aname = app['key'] if not app['pattern'] else draw(name_st)
                pname = p['key'] if not p['pattern'] else draw(name_st)
                lookups.append((aname, pname))
    for app in apps:
        if not app['pattern'] and draw(st.booleans()):
            pnames = [p['key'] for p in app['programs'] if not p['pattern']]
            lookups.append((app['key'], draw(st.sampled_from(pnames)) if pnames and draw(st.booleans()) else draw(name_st)))
    return {'aliases': aliases, 'models': models, 'apps': apps, 'lookups': lookups, 'lxml': lxml}


def to_xml(doc) -> str:
    out = ['<?xml version="1.0" encoding="UTF-8" standalone="no"?>', '<root>']
    for name, text in doc['aliases']:
        out.append(f'  <alias name={quoteattr(name)}>{escape(text)}</alias>')
    for m in doc['models']:
        out.append(f'  <model name={quoteattr(m["name"])}>')
        if m['reference']:
            out.append(f'    <reference>{escape(m["reference"])}</reference>')
        for tag, text in m['values'].items():
            out.append(f'    <{tag}>{escape(text)}</{tag}>')
        out.append('  </model>')
    for app in doc['apps']:
        attr = 'pattern' if app['pattern'] else 'name'
        out.append(f'  <application {attr}={quoteattr(app["key"])}>')
        for tag, text in app['values'].items():
            out.append(f'    <{tag}>{escape(text)}</{tag}>')
        if app['programs']:
            out.append('    <programs>')
            for p in app['programs']:
                pattr = 'pattern' if p['pattern'] else 'name'
                out.append(f'      <program {pattr}={quoteattr(p["key"])}>')
                if p['reference']:
                    out.append(f'        <reference>{escape(p["reference"])}</reference>')
                for tag, text in p['values'].items():
                    out.append(f'        <{tag}>{escape(text)}</{tag}>')
                out.append('      </program>')
            out.append('    </programs>')
        out.append('  </application>')
    out.append('</root>')
    return '\n'.join(out) + '\n'


# --- reference resolver
def ref_int(text, lo=None, hi=None):
    try:
        v = int(text)
    except (TypeError, ValueError):
        return None
    if lo is not None and v < lo:
        return None
    if hi is not None and v > hi:
        return None
    return v


def ref_bool(text):
    t = text.strip().lower() if text is not None else ''
    if t in ('y', 'yes', 't', 'true', 'on', '1'):
        return True
    if t in ('n', 'no', 'f', 'false', 'off', '0'):
        return False
    return None


def ref_identifiers(text, aliases):
    items = [x.strip() for x in text.split(',')]
    items = [x for x in items if x]
    for name, atext in aliases.items():       # declaration order; a later alias may expand what an earlier one brought
        alist = [x.strip() for x in atext.split(',') if x.strip()]
        if name in items:
            pos = items.index(name)
            items[pos:pos + 1] = alist
    items = list(OrderedDict.fromkeys(x for x in items if x))
    if '*' in items:
        return ['*']
    return items


def best_patterns(name, patterns):
    """patterns: list of pattern strings (declaration order, duplicates collapsed like a dict). Returns tied best."""
    seen = list(OrderedDict.fromkeys(patterns))
    scored = []
    for pat in seen:
        mo = re.search(f'({pat})', name)
        if mo:
            scored.append((len(mo.group()), pat))
    if not scored:
        return []
    best = max(s for s, _ in scored)
    return [p for s, p in scored if s == best]


def apply_values(rules, values, aliases):
    if values.get('identifiers'):
        rules['identifiers'] = ref_identifiers(values['identifiers'], aliases)
    for tag in ('start_sequence', 'stop_sequence'):
        if values.get(tag):
            v = ref_int(values[tag], 0)
            if v is not None:
                rules[tag] = v
    for tag in ('required', 'wait_exit'):
        if values.get(tag):
            v = ref_bool(values[tag])
            if v is not None:
                rules[tag] = v
    if values.get('expected_loading'):
        v = ref_int(values['expected_loading'], 0, 100)
        if v is not None:
            rules['expected_loading'] = v
    if values.get('starting_failure_strategy') in STARTING_FAILURE:
        rules['starting_failure_strategy'] = values['starting_failure_strategy']
    if values.get('running_failure_strategy') in RUNNING_FAILURE:
        rules['running_failure_strategy'] = values['running_failure_strategy']


def ref_app_candidates(doc, app_name):
    """Indexes of application elements that may be selected for the group name (ties -> several)."""
    for k, app in enumerate(doc['apps']):
        if not app['pattern'] and app['key'] == app_name:
            return [k]
    pats = {}
    for k, app in enumerate(doc['apps']):
        if app['pattern']:
            pats[app['key']] = k          # same pattern twice: the last element wins (dict update)
    tied = best_patterns(app_name, list(pats))
    return [pats[p] for p in tied]


def ref_app_rules(doc, k):
    rules = {'managed': k is not None, 'start_sequence': 0, 'stop_sequence': -1, 'starting_strategy': 'CONFIG',
             'starting_failure_strategy': 'ABORT', 'running_failure_strategy': 'CONTINUE', 'distribution': 'ALL_INSTANCES'}
    if k is not None:
        vals = doc['apps'][k]['values']
        for tag in ('start_sequence', 'stop_sequence'):
            if vals.get(tag):
                v = ref_int(vals[tag], 0)
                if v is not None:
                    rules[tag] = v
        if vals.get('starting_failure_strategy') in STARTING_FAILURE:
            rules['starting_failure_strategy'] = vals['starting_failure_strategy']
        if vals.get('running_failure_strategy') in RUNNING_FAILURE:
            rules['running_failure_strategy'] = vals['running_failure_strategy']
        if vals.get('starting_strategy') in STARTING:
            rules['starting_strategy'] = vals['starting_strategy']
        if vals.get('distribution') in DISTRIBUTION:
            rules['distribution'] = vals['distribution']
    if rules['stop_sequence'] < 0:
        rules['stop_sequence'] = rules['start_sequence']
    return rules


def ref_program_rules(doc, app_index, app_rules, prog_name):
    """List of acceptable rule dictionaries for the program (several on pattern ties)."""
    aliases = OrderedDict(doc['aliases'])
    models = {}
    for m in doc['models']:
        models[m['name']] = m
    base = {'identifiers': ['*'], 'start_sequence': 0, 'stop_sequence': -1, 'required': False, 'wait_exit': False,
            'expected_loading': 0, 'starting_failure_strategy': app_rules['starting_failure_strategy'],
            'running_failure_strategy': app_rules['running_failure_strategy']}
    candidates = [None]
    if app_index is not None:
        progs = doc['apps'][app_index]['programs']
        exact = [p for p in progs if not p['pattern'] and p['key'] == prog_name]
        if exact:
            candidates = [exact[0]]
        else:
            pats = {}
            for p in progs:
                if p['pattern']:
                    pats[p['key']] = p
            tied = best_patterns(prog_name, list(pats))
            candidates = [pats[t] for t in tied] or [None]
    results = []
    for elt in candidates:
        rules = dict(base)
        if elt is not None:
            chain = [elt]
            cur = elt
            for _ in range(2):                      # program + at most two models
                ref = cur.get('reference')
                nxt = models.get(ref) if ref else None
                if nxt is None:
                    break
                chain.append(nxt)
                cur = nxt
            for node in reversed(chain):
                apply_values(rules, node['values'], aliases)
        if rules['required'] and rules['start_sequence'] == 0:
            rules['required'] = False
        if rules['stop_sequence'] < 0:
            rules['stop_sequence'] = rules['start_sequence']
        results.append(rules)
    return results


def load_real(doc, tmpdir):
    """Loads the document through the real Parser; returns (parser or None, 'ok' | 'xsd-rejected')."""
    path = os.path.join(tmpdir, 'rules.xml')
    with open(path, 'w') as f:
        f.write(to_xml(doc))
    from supvisors.sparser import Parser
    saved = sys.modules.get('lxml.etree', 'absent')
    if not doc['lxml']:
        sys.modules['lxml.etree'] = None
    try:
        import io
        import supvisors.sparser as sparser_module
        saved_stderr = getattr(sparser_module, 'stderr', None)
        sparser_module.stderr = io.StringIO()      # the XSD error log is printed there
        try:
            parser = Parser(_Sv([path]))
        except ValueError as exc:
            if 'NOT validated' in str(exc):
                return None, 'xsd-rejected'
            raise
        finally:
            if saved_stderr is not None:
                sparser_module.stderr = saved_stderr
    finally:
        if saved == 'absent':
            sys.modules.pop('lxml.etree', None)
        else:
            sys.modules['lxml.etree'] = saved
    return parser, 'ok'


def check_rules(doc):
    """Returns (finding or None, class label, nontrivial)."""
    from supvisors.application import ApplicationRules
    from supvisors.process import ProcessRules
    tmpdir = tempfile.mkdtemp(prefix='c18-', dir='/dev/shm' if os.path.isdir('/dev/shm') else None)
    nontrivial = False
    try:
        try:
            parser, status = load_real(doc, tmpdir)
        except Exception as exc:
            sig, detail = exception_signature(exc)
            return (sig, f'loading the rules file: {detail}'), 'load-exception', True
        if status != 'ok':
            return None, status, False
        sv = parser.supvisors
        for app_name, prog_name in doc['lookups']:
            cands = ref_app_candidates(doc, app_name) or [None]
            arules = ApplicationRules(sv)
            arules.starting_strategy = __import__('supvisors.ttypes', fromlist=['StartingStrategies']).StartingStrategies.CONFIG
            try:
                parser.load_application_rules(app_name, arules)
            except Exception as exc:
                sig, detail = exception_signature(exc)
                return (sig, f'load_application_rules({app_name!r}): {detail}'), 'lookup-exception', True
            got_app = {'managed': arules.managed, 'start_sequence': arules.start_sequence,
                       'stop_sequence': arules.stop_sequence, 'starting_strategy': arules.starting_strategy.name,
                       'starting_failure_strategy': arules.starting_failure_strategy.name,
                       'running_failure_strategy': arules.running_failure_strategy.name,
                       'distribution': arules.distribution.name}
            acceptable_apps = [(k, ref_app_rules(doc, k)) for k in cands]
            match = [(k, r) for k, r in acceptable_apps if r == got_app]
            if len(cands) >= 2:
                nontrivial = True
            if not match:
                return ('rules:application', f'group {app_name!r}: got {got_app}, reference {[r for _, r in acceptable_apps]} '
                        f'(elements {cands}); doc={_brief(doc)}'), 'mismatch', True
            prules = ProcessRules(sv)
            prules.starting_failure_strategy = arules.starting_failure_strategy
            prules.running_failure_strategy = arules.running_failure_strategy
            namespec = f'{app_name}:{prog_name}'
            try:
                parser.load_program_rules(namespec, prules)
            except Exception as exc:
                sig, detail = exception_signature(exc)
                return (sig, f'load_program_rules({namespec!r}): {detail}'), 'lookup-exception', True
            got = prules.serial()
            got_prog = {'identifiers': list(got['identifiers']), 'start_sequence': got['start_sequence'],
                        'stop_sequence': got['stop_sequence'], 'required': got['required'], 'wait_exit': got['wait_exit'],
                        'expected_loading': got['expected_loading'],
                        'starting_failure_strategy': got['starting_failure_strategy'],
                        'running_failure_strategy': got['running_failure_strategy']}
            acceptable = []
            for k, r in match:
                acceptable.extend(ref_program_rules(doc, k, r, prog_name))
            if len(acceptable) >= 2:
                nontrivial = True
            if got_prog not in acceptable:
                diff = {key: (got_prog[key], [a[key] for a in acceptable]) for key in got_prog
                        if all(a[key] != got_prog[key] for a in acceptable)}
                kind = '+'.join(sorted(diff)) or 'combination'
                return (f'rules:program:{kind}', f'{namespec}: differing {diff}; got {got_prog}; doc={_brief(doc)}'), \
                    'mismatch', True
            if any(m.get('reference') for m in doc['models']):
                nontrivial = True
        return None, ('lxml' if doc['lxml'] else 'elementtree'), nontrivial
    finally:
        shutil.rmtree(tmpdir, ignore_errors=True)


def _brief(doc):
    return {'aliases': doc['aliases'], 'models': doc['models'], 'apps': doc['apps'], 'lxml': doc['lxml']}


# ---------------------------------------------------------------------------------------------------------------------
# options
class _SupOptions:
    here = '/tmp'
    environ_expansions = {}


class _Supervisord:
    options = _SupOptions()


def _b(s):
    t = s.lower()
    if t in ('true', 'on', 'yes', '1'):
        return True
    if t in ('false', 'off', 'no', '0'):
        return False
    raise ValueError


def _int_in(lo, hi):
    def conv(s):
        v = int(s)
        if v < lo or v > hi:
            raise ValueError
        return v
    return conv


def _float_in(lo, hi):
    def conv(s):
        v = float(s)
        if not (lo <= v <= hi):          # NaN is not in the documented range
            raise ValueError
        return v
    return conv


def _enum(names):
    def conv(s):
        if s.upper() not in names:
            raise ValueError
        return s.upper()
    return conv


def _periods(s):
    items = [x.strip() for x in s.split(',')]
    items = [x for x in items if x] if s.strip() else []
    if not (1 <= len(items) <= 3):
        raise ValueError
    return sorted(_float_in(1.0, 3600.0)(x) for x in items)


# key -> (attribute, reference converter (raises ValueError when outside the documented domain), normaliser, values)
INT_STRINGS = ['15', '20', '1200', '14', '1201', '2', '720', '1', '721', '0', '-3', 'abc', '', '2.5', ' 30 ', '+40', '1_0',
               '१५', '1e2', 'nan', '0x10', '10', '1500', '9', '1501', '65535', '65536']
FLOAT_STRINGS = ['1', '1.0', '5', '10.5', '3600', '3600.1', '0.99', '0', '-1', 'nan', 'NaN', 'inf', '-inf', 'abc', '',
                 '1e1', '1_0.0', ' 7 ', '2,5']
BOOL_STRINGS = ['true', 'false', 'TRUE', 'False', 'on', 'off', 'yes', 'no', '1', '0', '2', 'maybe', '', 'y']
OPTION_DOMAINS = {
    'auto_fence': ('auto_fence', _b, BOOL_STRINGS),
    'stats_irix_mode': ('stats_irix_mode', _b, BOOL_STRINGS),
    'synchro_timeout': ('synchro_timeout', _int_in(15, 1200), INT_STRINGS),
    'inactivity_ticks': ('inactivity_ticks', _int_in(2, 720), INT_STRINGS),
    'stats_histo': ('stats_histo', _int_in(10, 1500), INT_STRINGS),
    'event_port': ('event_port', _int_in(1, 65535), INT_STRINGS),
    'stats_collecting_period': ('collecting_period', _float_in(1.0, 3600.0), FLOAT_STRINGS),
    'stats_periods': ('stats_periods', _periods, FLOAT_STRINGS + ['5,10', '5,10,15', '5,10,15,20', '10,5', '5,nan',
                                                                  '1,3600', '0,5']),
    'conciliation_strategy': ('conciliation_strategy',
                              _enum(['SENICIDE', 'INFANTICIDE', 'USER', 'STOP', 'RESTART', 'RUNNING_FAILURE']),
                              ['USER', 'user', 'Stop', 'SENICIDE', 'infanticide', 'RESTART', 'running_failure', 'KILL', '']),
    'starting_strategy': ('starting_strategy', _enum(STARTING), ['CONFIG', 'config', 'LESS_LOADED', 'most_loaded', 'LOCAL',
                                                                  'LESS_LOADED_NODE', 'MOST_LOADED_NODE', 'RANDOM', '']),
    'supvisors_failure_strategy': ('supvisors_failure_strategy', _enum(['CONTINUE', 'RESYNC', 'SHUTDOWN']),
                                   ['CONTINUE', 'resync', 'SHUTDOWN', 'shutdown', 'RESTART', '']),
}
SYNC_STRINGS = ['STRICT', 'LIST', 'TIMEOUT', 'CORE', 'USER', 'strict,timeout', 'LIST,CORE', 'CORE', 'STRICT', 'TIMEOUT,USER',
                'LIST,TIMEOUT,CORE,USER,STRICT', 'NONE', 'LIST,BAD', '', ' ', 'core,core', 'STRICT,CORE']
CORE_STRINGS = ['', 's1', 's1,s2', ' ', ',']
LIST_STRINGS = [None, '', 's1:60001', 's1:60001,s2:60002']


@st.composite
def options_case_st(draw):
    config = {}
    for key in sorted(OPTION_DOMAINS):
        if draw(st.integers(0, 9)) < 4:
            config[key] = draw(st.sampled_from(OPTION_DOMAINS[key][2]))
    if draw(st.integers(0, 9)) < 6:
        config['synchro_options'] = draw(st.sampled_from(SYNC_STRINGS))
    if draw(st.integers(0, 9)) < 5:
        config['core_identifiers'] = draw(st.sampled_from(CORE_STRINGS))
    sl = draw(st.sampled_from(LIST_STRINGS))
    if sl is not None:
        config['supvisors_list'] = sl
    others = [draw(st.fixed_dictionaries({}, optional={
        'synchro_options': st.sampled_from(SYNC_STRINGS), 'core_identifiers': st.sampled_from(CORE_STRINGS),
        'supvisors_list': st.sampled_from([x for x in LIST_STRINGS if x is not None]),
        'supvisors_failure_strategy': st.sampled_from(['CONTINUE', 'RESYNC', 'SHUTDOWN'])})) for _ in range(draw(st.integers(0, 2)))]
    return {'config': config, 'others': others}


def build_options(config):
    from supvisors.options import SupvisorsOptions
    try:
        return SupvisorsOptions(_Supervisord(), _Logger(), **config), None
    except ValueError as exc:
        return None, exc


def snapshot(opts):
    out = {}
    for k, v in vars(opts).items():
        if k in ('logger', 'supervisord_options'):
            continue
        if isinstance(v, (list, tuple, set)):
            v = [getattr(x, 'name', x) for x in (sorted(v, key=str) if isinstance(v, set) else v)]
        else:
            v = getattr(v, 'name', v)
        if isinstance(v, float) and math.isnan(v):
            v = 'nan'
        if isinstance(v, list):
            v = ['nan' if isinstance(x, float) and math.isnan(x) else x for x in v]
        out[k] = v
    return out


def check_options(case):
    config = case['config']
    invalid_keys = []
    try:
        opts, err = build_options(config)
    except Exception as exc:
        sig, detail = exception_signature(exc)
        return (sig, f'SupvisorsOptions({config}): {detail}'), 'exception', True
    # reference of the resulting synchro_options
    sync_text = config.get('synchro_options')
    ref_sync = None
    if sync_text is not None:
        items = [x.strip().upper() for x in sync_text.split(',') if x.strip()]
        if all(x in ('STRICT', 'LIST', 'TIMEOUT', 'CORE', 'USER') for x in items):
            ref_sync = list(OrderedDict.fromkeys(items))
    if ref_sync is None:
        ref_sync = ['STRICT', 'TIMEOUT', 'CORE']         # documented default
        if sync_text is not None:
            invalid_keys.append('synchro_options')
    core = [x.strip() for x in config.get('core_identifiers', '').split(',') if x.strip()]
    slist = [x.strip() for x in (config.get('supvisors_list') or '').split(',') if x.strip()]
    if not core and 'CORE' in ref_sync:
        ref_sync = [x for x in ref_sync if x != 'CORE']
    if not slist and 'STRICT' in ref_sync:
        ref_sync = [x for x in ref_sync if x != 'STRICT']
    if not ref_sync:
        if err is None:
            return ('options:empty-synchro_options-accepted', f'{config} accepted although synchro_options ends up empty: '
                    f'{[x.name for x in opts.synchro_options]}'), 'refused-expected', True
        return None, 'refused', True
    if err is not None:
        return ('options:refused', f'{config} refused ({err}) although synchro_options should be {ref_sync}'), 'refused', True
    got_sync = [x.name for x in opts.synchro_options]
    if got_sync != ref_sync:
        return ('options:synchro_options', f'{config}: synchro_options={got_sync}, expected {ref_sync}'), 'mismatch', True
    # per-key domains
    for key, (attr, conv, _vals) in OPTION_DOMAINS.items():
        if key not in config:
            continue
        try:
            want = conv(config[key].strip() if key != 'stats_periods' else config[key])
            valid = True
        except (ValueError, TypeError):
            valid = False
        got = getattr(opts, attr)
        got = getattr(got, 'name', got)
        if valid:
            if key == 'supvisors_failure_strategy' and 'TIMEOUT' in ref_sync:
                want = 'CONTINUE'
            if got != want and not (isinstance(got, float) and isinstance(want, float) and math.isclose(got, want)):
                return (f'options:{key}:value', f'{key}={config[key]!r}: got {got!r}, expected {want!r}'), 'mismatch', True
        else:
            invalid_keys.append(key)
            without = dict(config)
            del without[key]
            ref_opts, ref_err = build_options(without)
            if ref_err is not None:
                continue
            a, b = snapshot(opts), snapshot(ref_opts)
            if a != b:
                diff = {k: (a[k], b[k]) for k in a if a[k] != b.get(k)}
                return (f'options:{key}:invalid-not-default', f'{key}={config[key]!r} is outside its documented domain but '
                        f'the options differ from those obtained without the key: {diff}'), 'mismatch', True
    if 'TIMEOUT' in ref_sync and opts.supvisors_failure_strategy.name != 'CONTINUE':
        return ('options:TIMEOUT-does-not-force-CONTINUE', f'{config}: {opts.supvisors_failure_strategy.name}'), 'mismatch', True
    # purity: same dictionary again after other dictionaries
    first = snapshot(opts)
    for other in case['others']:
        try:
            build_options(other)
        except Exception:
            pass
    again, err2 = build_options(config)
    if err2 is not None or snapshot(again) != first:
        second = snapshot(again) if again is not None else str(err2)
        diff = {k: (first[k], second[k]) for k in first if not isinstance(second, str) and first[k] != second.get(k)}
        return ('options:not-pure', f'{config} built twice (with {case["others"]} in between) gives different options: '
                f'{diff or second}'), 'mismatch', True
    return None, ('with-invalid' if invalid_keys else 'all-valid'), bool(invalid_keys)


# ---------------------------------------------------------------------------------------------------------------------
def run_shard(ctx: ShardCtx) -> ShardResult:
    result = ShardResult()
    triage = Triage(ctx, result)
    phases = [Phase.generate] if ctx.tier == 'quick' else [Phase.generate, Phase.shrink]

    def common(n):
        return settings(max_examples=n, deadline=None, database=None, report_multiple_bugs=False, phases=phases,
                        suppress_health_check=list(HealthCheck), print_blob=False)

    def part_rules():
        @hypothesis.seed(ctx.hyp_seed + 7919 * len(result.findings))
        @common(ctx.scale(2500, 60000))
        @given(doc_st())
        def test(doc):
            bad, klass, nontrivial = check_rules(doc)
            result.note(('R', doc), nontrivial, sample={'part': 'R', 'doc': _brief(doc), 'lookups': doc['lookups']})
            result.classes['R:' + klass] += 1
            if bad:
                triage.report(bad[0], bad[1], {'part': 'R', 'doc': doc})
        test()

    def part_options():
        @hypothesis.seed(ctx.hyp_seed + 3 + 7919 * len(result.findings))
        @common(ctx.scale(4000, 100000))
        @given(options_case_st())
        def test(case):
            bad, klass, nontrivial = check_options(case)
            result.note(('O', case), nontrivial, sample={'part': 'O', 'case': case})
            result.classes['O:' + klass] += 1
            if bad:
                triage.report(bad[0], bad[1], {'part': 'O', 'case': case})
        test()

    triage.collect(part_rules)
    triage.collect(part_options)
    return result


def replay(case) -> list:
    if case['part'] == 'R':
        bad, _, _ = check_rules(case['doc'])
    else:
        bad, _, _ = check_options(case['case'])
    return [Finding(bad[0], bad[1], case)] if bad else []
