"""C13 - Isolation is permanent, reciprocal and airtight (cluster simulator, non-interference probes)."""
import json

from hypothesis import strategies as st

from clustersim.episode import Profile, episode_st, STARTING, nick
from clustersim.world import Monitor
from checks.cluster import EpisodeCheck, fault_classes

PROPERTY_ID = 'C13'
LEVEL = 'exploration'
RULE = ('Hypothesis-generated episodes on the cluster simulator: 2-4 real instances with auto_fence, cuts / one-way '
        'losses / heals, crashes and restarts, process activity, and with some probability one instance whose '
        'auto_fence / starting / conciliation / supvisors_failure strategy differs. Every internal message really '
        'exchanged is recorded; generated probes then re-inject, into an instance L, messages claiming to come from a '
        'peer that L holds ISOLATED (recorded ticks, process / added / removed / disability events, state publications, '
        'IDENTIFICATION / AUTHORIZATION / ALL_INFO / STATE / INSTANCE_FAILURE notifications, stale or duplicated, with '
        'origin fields that do not match) and process / removal / disability events (also forced ones) claiming to come '
        'from a peer that L has not admitted (STOPPED, CHECKING, FAILED). Oracle: the observable snapshot of L (all '
        'status XML-RPCs; fields that differ between two consecutive snapshots without any message are masked) is '
        'identical before and after each such message - natural or injected; nothing is enqueued by L for a peer after '
        'it became ISOLATED; an ISOLATED entry never changes state during the incarnation; a peer whose handshake answer '
        'reports L as ISOLATED, or whose strategies differ, never becomes CHECKED / RUNNING for L. Non-trivial = >= 3 '
        'messages of >= 2 kinds probed against an isolated or not admitted peer; distinct = distinct episodes.')
ASSUMPTIONS = ['probe payloads are well-formed messages recorded from real peers (origin and selected fields rewritten)',
               'messages queued for a peer before it became ISOLATED are not judged',
               'the snapshot is what the status XML-RPCs expose (internal attributes not exposed are not compared)']
SHARDS = {'quick': 16, 'thorough': 16}

STRATEGY_KEYS = ('auto_fence', 'starting_strategy', 'conciliation_strategy', 'supvisors_failure_strategy')
PUB, NOTIF = 'SupvisorsPublication', 'SupvisorsNotification'
NOT_ADMITTED = ('STOPPED', 'CHECKING', 'FAILED')
PUB_KINDS = {0: 'TICK', 1: 'PROCESS', 2: 'PROCESS_ADDED', 3: 'PROCESS_REMOVED', 4: 'PROCESS_DISABILITY', 5: 'HOST_STATISTICS',
             6: 'PROCESS_STATISTICS', 7: 'STATE'}
NOTIF_KINDS = {0: 'IDENTIFICATION', 1: 'AUTHORIZATION', 2: 'STATE', 3: 'ALL_INFO', 4: 'DISCOVERY', 5: 'INSTANCE_FAILURE'}
MAX_NATURAL = 25


class P(Profile):
    n_min = 2
    n_max = 4
    auto_fence = (True, True, True, False)
    fault_ops = ('cut', 'cut', 'mute', 'heal', 'heal_all', 'crash', 'restart', 'restart_slow', 'restart_slow')
    proc_ops = ('exit', 'direct_start', 'direct_stop', 'group_ops')
    user_ops = ('rpc_disable',)
    op_rate = 0.35
    ops_per_step_max = 2
    steps_max = 80
    warmups = (0, 30, 45)
    sv_failure = ('CONTINUE', 'RESYNC')
    sync_sets = ('TIMEOUT', 'LIST,TIMEOUT')
    starting = tuple(STARTING)
    deviant_option = 0.2
    late_boot = 0.15
    apps_max = 2
    progs_max = 2


def effective(inst):
    """The strategies really applied by an instance (parsed options: TIMEOUT in synchro_options forces CONTINUE...)."""
    opts = inst.supvisors.options
    return tuple(getattr(getattr(opts, k), 'name', getattr(opts, k)) for k in STRATEGY_KEYS)


class IsolationMonitor(Monitor):
    def __init__(self, episode):
        self.config = episode['config']
        self.probes = [list(p) for p in episode.get('probes', [])]
        self.findings = []
        self.flags = set()
        self.pool = []              # recorded messages: (comm type, header, origin identifier, json text)
        self.pool_keys = {}
        self.isolated = {}          # (L idx, L inc, identifier) -> time
        self.denied = {}            # (L idx, L inc, identifier) -> (time, reason)
        self.natural = 0
        self.probed_kinds = set()
        self.probed = 0
        self.pending_natural = None
        self.busy = False

    # --- recording and natural traffic
    @staticmethod
    def _parse(args):
        try:
            ctype, data = args
            origin, (etype, body) = json.loads(data)
            return ctype, origin, etype, body
        except Exception:
            return None

    def on_rpc_begin(self, src, dst, name, args):
        if name != 'supervisor.sendRemoteCommEvent' or self.busy:
            return
        parsed = self._parse(args)
        if parsed is None:
            return
        ctype, origin, etype, body = parsed
        key = (ctype, etype, origin[0])
        count = self.pool_keys.get(key, 0)
        if count < 6:
            self.pool_keys[key] = count + 1
            self.pool.append((ctype, etype, origin[0], args[1]))
        # natural traffic from a peer that dst holds ISOLATED
        self.pending_natural = None
        if dst is not None and dst.alive and dst.supvisors is not None and self.natural < MAX_NATURAL:
            if (dst.idx, dst.incarnation, origin[0]) in self.isolated and ctype in (PUB, NOTIF):
                self.busy = True
                try:
                    self.pending_natural = (dst, self._stable_snapshot(dst), self._label(ctype, etype), origin[0])
                finally:
                    self.busy = False

    def on_rpc(self, src, dst, name, args, outcome, result):
        if name == 'supervisor.sendRemoteCommEvent':
            pending, self.pending_natural = self.pending_natural, None
            if pending is not None and outcome == 'ok' and not self.busy:
                inst, (snap, mask), label, ident = pending
                self.natural += 1
                self._compare(inst, snap, mask, f'natural {label} from {ident} (ISOLATED for {inst.nick})', 'isolated',
                              label)
            return
        if dst is None or src is dst or outcome != 'ok':
            return
        key = (src.idx, src.incarnation, dst.identifier)
        if name == 'supvisors.get_instance_info' and isinstance(result, list) and result:
            if result[0].get('statename') == 'ISOLATED' or result[0].get('statecode') == 5:
                self.denied[key] = (src.world.now, f'{dst.nick} reports {src.nick} as ISOLATED')
                self.flags.add('handshake:reported-isolated')
            else:
                self.denied.pop(key, None)
        elif name == 'supvisors.get_strategies':
            if dst.supvisors is not None and effective(src) != effective(dst):
                self.denied[key] = (src.world.now, f'strategies differ {effective(src)} / {effective(dst)}')
                self.flags.add('handshake:inconsistent-strategies')

    # --- isolation bookkeeping
    def on_instance_state(self, inst, identifier, new_state):
        key = (inst.idx, inst.incarnation, identifier)
        name = new_state.name
        if key in self.isolated and name != 'ISOLATED':
            self.findings.append(('isolated-state-left', f't={inst.world.now} {inst.nick}: {identifier} ISOLATED since '
                                  f't={self.isolated[key]} becomes {name}'))
        if name == 'ISOLATED':
            self.isolated.setdefault(key, inst.world.now)
            self.flags.add('isolated')
        elif name in ('CHECKED', 'RUNNING') and key in self.denied and identifier != inst.identifier:
            t, reason = self.denied[key]
            self.findings.append(('denied-peer-admitted', f't={inst.world.now} {inst.nick}: {identifier} becomes {name} '
                                  f'although its handshake answer at t={t} denies the authorization ({reason})'))

    def on_enqueue(self, owner, proxy, message):
        key = (owner.idx, owner.incarnation, proxy.dest_identifier)
        if key in self.isolated and owner.world.now > self.isolated[key]:
            try:
                etype, (_src, body) = message
                what = f'{etype.name} {str(body)[:80]}'
            except Exception:
                what = str(message)[:100]
            self.findings.append(('message-to-isolated-peer', f't={owner.world.now} {owner.nick} enqueues {what} for '
                                  f'{proxy.dest_identifier} that it holds ISOLATED since t={self.isolated[key]}'))

    # --- snapshots
    CALLS = (('get_supvisors_state', ()), ('get_all_instances_state_modes', ()), ('get_master_identifier', ()),
             ('get_all_instances_info', ()), ('get_all_applications_info', ()), ('get_all_process_info', ()),
             ('get_all_local_process_info', ()), ('get_conflicts', ()), ('get_strategies', ()),
             ('get_statistics_status', ()))

    def _snapshot(self, inst):
        from supervisor.xmlrpc import RPCError
        out = {}
        with inst.world.as_current(inst):
            for method, args in self.CALLS:
                try:
                    out[method] = getattr(inst.supvisors_rpc, method)(*args)
                except RPCError as exc:
                    out[method] = ('fault', exc.code)
            # context structures the status calls do not list entirely (gated before DISTRIBUTION)
            ctx = inst.supvisors.context
            out['#applications'] = sorted(ctx.applications)
            out['#processes'] = sorted((p.namespec, int(p.state), sorted(p.running_identifiers), sorted(p.info_map),
                                        sorted((k, v.get('state'), v.get('disabled')) for k, v in p.info_map.items()))
                                       for a in ctx.applications.values() for p in a.processes.values())
        return json.loads(json.dumps(out, default=str, sort_keys=True))

    @staticmethod
    def _diff(a, b, path=''):
        if type(a) is not type(b):
            return [path]
        if isinstance(a, dict):
            out = []
            for k in sorted(set(a) | set(b)):
                if k not in a or k not in b:
                    out.append(f'{path}/{k}')
                else:
                    out += IsolationMonitor._diff(a[k], b[k], f'{path}/{k}')
            return out
        if isinstance(a, list):
            if len(a) != len(b):
                return [path]
            out = []
            for i, (x, y) in enumerate(zip(a, b)):
                out += IsolationMonitor._diff(x, y, f'{path}/{i}')
            return out
        return [] if a == b else [path]

    def _stable_snapshot(self, inst):
        s1 = self._snapshot(inst)
        s2 = self._snapshot(inst)
        return s2, set(self._diff(s1, s2))

    def _compare(self, inst, snap, mask, what, klass, label):
        self.busy = True
        try:
            after = self._snapshot(inst)
        finally:
            self.busy = False
        changed = [p for p in self._diff(snap, after) if p not in mask]
        self.probed += 1
        self.probed_kinds.add(label)
        self.flags.add(f'probe:{klass}')
        if changed:
            def get(obj, path):
                for part in path.strip('/').split('/'):
                    obj = obj[part] if isinstance(obj, dict) else obj[int(part)]
                return obj
            details = []
            for pth in changed[:3]:
                try:
                    details.append(f'{pth}: {get(snap, pth)!r} -> {get(after, pth)!r}')
                except Exception:
                    details.append(pth)
            self.findings.append((f'{klass}-peer-message-has-effect:{label}', f't={inst.world.now} {inst.nick}: {what} '
                                  f'changes the observable snapshot: {details}'))

    @staticmethod
    def _label(ctype, etype):
        if ctype == PUB:
            return 'pub:' + PUB_KINDS.get(etype, str(etype))
        return 'notif:' + NOTIF_KINDS.get(etype, str(etype))

    # --- generated probes
    def after_step(self, world):
        if not self.probes or not self.pool or self.busy:
            return
        probe = self.probes[0]
        if world.now < probe[0]:
            return
        self.probes.pop(0)
        _when, a, b, c, d = probe
        # candidate (L, peer, class)
        cands = []
        for inst in world.instances:
            if not inst.alive or inst.supvisors is None:
                continue
            for ident, status in inst.supvisors.context.instances.items():
                if ident == inst.identifier:
                    continue
                if status.state.name == 'ISOLATED':
                    cands.append((inst, ident, 'isolated'))
                elif status.state.name in NOT_ADMITTED:
                    cands.append((inst, ident, 'not-admitted'))
        # handshake trigger: a peer that holds the local instance ISOLATED does not talk to it any more, so the branch
        # "the peer reports the local instance as ISOLATED" is only reached if one of its ticks still arrives: replay one
        triggers = []
        for inst in world.instances:
            if not inst.alive or inst.supvisors is None:
                continue
            for peer in world.instances:
                if peer is inst or not peer.alive or peer.supvisors is None or not world.reachable(inst, peer):
                    continue
                mine = inst.supvisors.context.instances[peer.identifier].state.name
                theirs = peer.supvisors.context.instances[inst.identifier].state.name
                if mine == 'STOPPED' and theirs == 'ISOLATED':
                    triggers.append((inst, peer))
        ticks = [m for m in self.pool if m[0] == PUB and m[1] == 0]
        if triggers and ticks and a % 3 == 0:
            inst, peer = triggers[a % len(triggers)]
            own = [m for m in ticks if m[2] == peer.identifier] or ticks
            ctype, etype, old_ident, text = own[b % len(own)]
            origin, (etype2, body) = json.loads(text)
            src = list(inst.supvisors.mapper.instances[peer.identifier].source)
            data = json.dumps([[src[0], src[1], list(src[2])], [etype2, body]])
            self.busy = True
            try:
                with world.as_current(inst):
                    try:
                        inst.supervisor_rpc.sendRemoteCommEvent(ctype, data)
                    except Exception as exc:
                        self.flags.add('probe-raised:' + type(exc).__name__)
            finally:
                self.busy = False
            self.flags.add('probe:handshake-trigger')
            world.obs('probe', inst.idx, peer.identifier, 'handshake-trigger', 'pub:TICK')
            return
        if not cands:
            return
        # isolated candidates first (the main subject)
        cands.sort(key=lambda x: (x[2] != 'isolated', x[0].idx, x[1]))
        n_iso = sum(1 for x in cands if x[2] == 'isolated')
        if n_iso and a % 4 != 3:
            inst, ident, klass = cands[a % n_iso]
        else:
            inst, ident, klass = cands[a % len(cands)]
        if klass == 'isolated':
            msgs = self.pool
        else:
            msgs = [m for m in self.pool if m[0] == PUB and m[1] in (1, 3, 4)]
        if not msgs:
            return
        ctype, etype, old_ident, text = msgs[b % len(msgs)]
        origin, (etype2, body) = json.loads(text)
        mapper = inst.supvisors.mapper
        peer_source = list(mapper.instances[ident].source)
        new_origin = [peer_source[0], peer_source[1], list(peer_source[2])]
        variant = c % 5 if klass == 'isolated' else 0
        if variant == 1:
            new_origin[1] = origin[1]                   # nick of somebody else
        elif variant == 2:
            new_origin[2] = list(origin[2])             # address of somebody else
        elif variant == 3:
            new_origin[2] = [new_origin[2][0], int(new_origin[2][1]) + 1000]   # wrong port
        elif variant == 4 and old_ident != ident and old_ident != inst.identifier:
            new_origin = [origin[0], origin[1], list(peer_source[2])]          # valid peer name, address of the isolated
        # fields of the body naming the original emitter follow the claimed one
        def rewrite(obj):
            if isinstance(obj, dict):
                return {k: rewrite(v) for k, v in obj.items()}
            if isinstance(obj, list):
                return [rewrite(v) for v in obj]
            if obj == origin[0]:
                return new_origin[0]
            if obj == origin[1] and isinstance(obj, str) and obj:
                return new_origin[1]
            return obj
        body = rewrite(body)
        if ctype == PUB and etype == 1 and isinstance(body, dict) and d % 3 == 0:
            body = dict(body, forced=True, state=[0, 20, 200][d % 3 if d % 3 else (d // 3) % 3])
        data = json.dumps([new_origin, [etype2, body]])
        label = self._label(ctype, etype) + ('' if variant == 0 else f':origin-variant-{variant}')
        self.busy = True
        try:
            snap, mask = self._stable_snapshot(inst)
            with world.as_current(inst):
                try:
                    inst.supervisor_rpc.sendRemoteCommEvent(ctype, data)
                except Exception as exc:     # an exception out of the entry point is C16's subject
                    self.flags.add('probe-raised:' + type(exc).__name__)
        finally:
            self.busy = False
        world.obs('probe', inst.idx, ident, klass, label)
        self._compare(inst, snap, mask, f'injected {label} claiming {new_origin} ({klass} for {inst.nick})', klass,
                      self._label(ctype, etype))

    def finish(self, world):
        return list(self.findings)


def make_monitors(episode):
    return [IsolationMonitor(episode)]


def evaluate(runner, monitors):
    seen = set()
    for sig, detail in monitors[0].finish(runner.world):
        if sig not in seen:
            seen.add(sig)
            yield sig, detail


def classify(runner, monitors, episode):
    mon = monitors[0]
    classes = fault_classes(runner) + sorted(mon.flags) + sorted('kind:' + k for k in mon.probed_kinds)
    if episode['config'].get('inst_options'):
        classes.append('deviant-option')
    if mon.natural:
        classes.append('natural-traffic-from-isolated')
    return mon.probed >= 3 and len(mon.probed_kinds) >= 2, classes


@st.composite
def c13_episode_st(draw):
    episode = draw(episode_st(P))
    horizon = int(episode.get('warmup', 0)) + len(episode['steps'])
    probes = draw(st.lists(st.tuples(st.integers(0, max(horizon, 1)), st.integers(0, 63), st.integers(0, 255),
                                     st.integers(0, 19), st.integers(0, 8)), min_size=4, max_size=24))
    episode['probes'] = sorted([list(p) for p in probes])
    return episode


CHECK = EpisodeCheck(PROPERTY_ID, c13_episode_st(), make_monitors, evaluate, classify, quick=600, thorough=8000,
                     suffix_kwargs={'ticks': 6, 'boot_dead': False, 'heal': False})


def run_shard(ctx):
    return CHECK.run_shard(ctx)


def replay(case):
    return CHECK.replay(case)
