"""C04 - Start requests only go to eligible instances with spare load (cluster simulator, per-request oracle)."""
from hypothesis import strategies as st

from clustersim.episode import Profile, episode_st, STARTING
from clustersim.rulesref import RulesRef
from clustersim.world import Monitor
from checks.cluster import EpisodeCheck, fault_classes

PROPERTY_ID = 'C04'
LEVEL = 'exploration'
RULE = ('Hypothesis-generated episodes on the cluster simulator: 2-4 real instances with several instances per node, '
        'rules with explicit identifier lists, expected_loading 0-70, the three distributions, instances knowing '
        'different programs; automatic distribution plus concurrent start_application / start_process / '
        'restart_application requests on any instance with all strategies, crashes and restarts of peers. Oracle at the '
        'creation of every start request (emitter X, target T, process p), recomputed independently from the generated '
        'configuration, the simulator topology, the true Supervisor tables and the view of X: T is RUNNING for X; the '
        'real Supervisor of T knows p and has it enabled; T is allowed by the applicable identifiers rule; the load of '
        'node(T) (what X lists as running there + the starts X already requested there that are still stopped for X) '
        'plus the load of p is <= 100; p is not running for X and X has no outstanding request for it. When X reports p '
        'FATAL "No resource available" the harness eligibility set must be empty. Non-trivial = request decided with >= '
        '2 candidates, or non-zero pending load, or on a multi-instance node; distinct = distinct episodes.')
ASSUMPTIONS = ['generated rules use exact names and instance lists (no alias / stereotype / pattern): lookup is trivial',
               'the pending load counted by the harness is a lower bound (only requests actually sent)']
SHARDS = {'quick': 16, 'thorough': 16}

RUNNING_LIKE = (10, 20, 30)


class P(Profile):
    n_min = 2
    n_max = 4
    multi_instance_node = 0.65
    apps_max = 2
    progs_max = 4
    known_subsets = True
    distribution = ('ALL_INSTANCES', 'ALL_INSTANCES', 'SINGLE_INSTANCE', 'SINGLE_NODE')
    loads = (0, 10, 40, 40, 70)
    explicit_identifiers = 0.4
    fault_ops = ('crash', 'restart', 'boot')
    proc_ops = ('exit', 'direct_start')
    user_ops = ('rpc_start', 'rpc_start', 'rpc_start', 'rpc_disable')
    op_rate = 0.4
    ops_per_step_max = 3
    steps_max = 50
    warmups = (30, 45, 45)
    sv_failure = ('CONTINUE',)
    sync_sets = ('TIMEOUT', 'LIST,TIMEOUT')
    wait_exit = 0.0
    startsecs = (0, 1, 6)
    starting = tuple(STARTING)
    running_failure = ('CONTINUE', 'RESTART_PROCESS', 'RESTART_APPLICATION')
    sequences = (1, 1, 1, 2, 0)
    late_boot = 0.1


class StartRequestMonitor(Monitor):
    def __init__(self, config):
        self.ref = RulesRef(config)
        self.config = config
        self.findings = []
        self.pending = {}        # (X idx, X inc) -> {namespec: (target idx, time)}
        self.flags = set()
        self.last_pending_other_app = 0
        self.job_other = {}
        self.jobs_seen = {}      # (X idx, X inc, application) -> start job objects already met (strong references)
        self.requests = 0

    def _node(self, idx):
        return self.config['nodes'][idx]

    def _view_listed(self, inst, namespec):
        """(running?, identifiers) of the process in the view of inst."""
        app, _, name = namespec.partition(':')
        a = inst.supvisors.context.applications.get(app)
        if a is None or name not in a.processes:
            return False, set()
        p = a.processes[name]
        return p.state in RUNNING_LIKE, set(p.running_identifiers)

    def _node_load(self, inst, node, exclude=None):
        """Load of the node as the harness computes it from the view of inst: what inst lists as running on instances
        of that node (loads from the generated rules) + the starts inst requested there, still stopped for inst."""
        w = inst.world
        total = 0
        for app in inst.supvisors.context.applications.values():
            for p in app.processes.values():
                if p.state in RUNNING_LIKE:
                    for ident in p.running_identifiers:
                        peer = w.by_identifier(ident)
                        if peer is not None and self._node(peer.idx) == node:
                            total += self.ref.load(p.namespec)
        pend = 0
        self.last_pending_other_app = 0
        app_of = self.ref.progs[exclude]['app'] if exclude in self.ref.progs else None
        for namespec, (tidx, _t) in list(self.pending.get((inst.idx, inst.incarnation), {}).items()):
            if namespec == exclude:
                continue
            stopped = self._stopped_for(inst, namespec)
            if not stopped:
                continue
            if self._node(tidx) == node:
                pend += self.ref.load(namespec)
                if self.ref.progs[namespec]['app'] != app_of:
                    self.last_pending_other_app += self.ref.load(namespec)
        return total, pend

    def _stopped_for(self, inst, namespec):
        app, _, name = namespec.partition(':')
        a = inst.supvisors.context.applications.get(app)
        if a is None or name not in a.processes:
            return True
        return a.processes[name].state in (0, 100, 200, 1000)

    def eligible(self, inst, namespec):
        """Harness eligibility set (instance indexes) for a start of namespec decided by inst now."""
        w = inst.world
        out = []
        allowed = self.ref.allowed_instances(namespec)
        for peer in w.instances:
            if inst.supvisors.context.instances[peer.identifier].state.name != 'RUNNING':
                continue
            if allowed is not None and peer.idx not in allowed:
                continue
            if not self.ref.knows(peer.idx, namespec):
                continue
            if self._disabled(peer, namespec):
                continue
            total, pend = self._node_load(inst, self._node(peer.idx), exclude=namespec)
            if total + pend + self.ref.load(namespec) <= 100:
                out.append(peer.idx)
        return out

    @staticmethod
    def _disabled(peer, namespec):
        if not peer.alive:
            return False
        group, _, name = namespec.partition(':')
        grp = peer.supervisord.process_groups.get(group)
        proc = grp.processes.get(name) if grp is not None else None
        cfg = getattr(getattr(proc, 'supvisors_config', None), 'program_config', None)
        return bool(cfg is not None and cfg.disabled)

    def on_request(self, inst, identifier, rtype, body):
        if rtype.name != 'START_PROCESS':
            return
        namespec = body[0]
        if namespec not in self.ref.progs:
            return
        w = inst.world
        self.requests += 1
        target = w.by_identifier(identifier)
        key = (inst.idx, inst.incarnation)
        pend = self.pending.setdefault(key, {})
        where = f't={w.now} {inst.nick} -> {identifier} start {namespec}'
        # 1. target RUNNING for the requester
        tstate = inst.supvisors.context.instances[identifier].state.name
        if tstate != 'RUNNING':
            self.findings.append(('target-not-RUNNING', f'{where}: target is {tstate} for the requester'))
        # 2. the real Supervisor of the target knows the program and has it enabled
        if target is not None and target.alive:
            group, _, name = namespec.partition(':')
            proc = target.supervisord.process_groups.get(group)
            proc = proc.processes.get(name) if proc is not None else None
            if proc is None:
                self.findings.append(('target-does-not-know-program', f'{where}: the Supervisor of the target has no such '
                                      f'process'))
            elif getattr(getattr(proc, 'supvisors_config', None), 'program_config', None) is not None \
                    and proc.supvisors_config.program_config.disabled:
                # skipped while the disability event is still in flight: only when the requester already knows
                app_status = inst.supvisors.context.applications.get(group)
                pstatus = app_status.processes.get(name) if app_status is not None else None
                if pstatus is not None and pstatus.info_map.get(identifier, {}).get('disabled'):
                    self.findings.append(('target-has-program-disabled', where))
        # 3. identifiers rule
        allowed = self.ref.allowed_instances(namespec)
        if target is not None and allowed is not None and target.idx not in allowed:
            self.findings.append(('target-not-allowed-by-rule', f'{where}: the applicable identifiers rule is '
                                  f'{allowed} (instance indexes)'))
        # 4. node load
        if target is not None:
            node = self._node(target.idx)
            total, pending_load = self._node_load(inst, node, exclude=namespec)
            load = self.ref.load(namespec)
            if pending_load:
                self.flags.add('pending-load')
            if sum(1 for k in self.config['nodes'] if k == node) > 1:
                self.flags.add('multi-instance-node')
            other = self.last_pending_other_app
            app_name = self.ref.progs[namespec]['app']
            restricted = self.ref.apps[app_name]['distribution'] != 'ALL_INSTANCES'
            jkey = (inst.idx, inst.incarnation, app_name)
            app_pending = [ns for ns in pend if ns != namespec and self.ref.progs[ns]['app'] == app_name
                           and self._stopped_for(inst, ns)]
            first_of_job = not app_pending and not any(self._view_listed(inst, p['namespec'])[0]
                                                       for p in self.ref.apps[app_name]['programs'])
            # identity of the application start job of the requester (read for identity only): a later start_sequence
            # of the same job is not "the application placed as a whole" again, even if what was started first failed
            job_obj = inst.supvisors.starter.get_application_job(app_name)
            if job_obj is not None:
                seen = self.jobs_seen.setdefault((inst.idx, inst.incarnation, app_name), [])
                if any(j is job_obj for j in seen):
                    first_of_job = False
                else:
                    seen.append(job_obj)
            if restricted and first_of_job:
                # a non-distributed application is placed as a whole when its job starts
                self.job_other[jkey] = other
                # (the start sequence as the requester knows it: programs of Supervisors it has never seen are unknown)
                known = inst.supvisors.context.applications[app_name].processes if app_name in \
                    inst.supvisors.context.applications else {}
                load = sum(p['load'] for p in self.ref.apps[app_name]['programs']
                           if p['start_sequence'] > 0 and p['name'] in known)
            elif restricted:
                other += self.job_other.get(jkey, 0)
            if total + pending_load + load > 100:
                # diagnosis: would the request be fine without the starts pending for OTHER applications (now, or when
                # the non-distributed application was planned)?
                sig = 'node-overloaded'
                if total + pending_load - other + load <= 100:
                    sig = 'node-overloaded:pending-starts-of-another-application-ignored'
                elif restricted and (not first_of_job or self.ref.progs[namespec]['start_sequence'] == 0):
                    # a process started alone in a non-distributed application: the code checks the load of the
                    # application start sequence instead of the load of the requested process
                    sig = 'node-overloaded:non-distributed-application:load-of-requested-process-not-checked'
                self.findings.append((sig, f'{where}: node load {total} running + {pending_load} requested + '
                                      f'{load} > 100 (node {node}, instances {[k for k, v in enumerate(self.config["nodes"]) if v == node]})'))
            if len(self.eligible(inst, namespec)) >= 2:
                self.flags.add('several-candidates')
        # 5. not already running / outstanding
        running, listed = self._view_listed(inst, namespec)
        if running:
            self.findings.append(('already-running', f'{where}: the requester lists it running on {sorted(listed)}'))
        if namespec in pend and self._stopped_for(inst, namespec) and w.now - pend[namespec][1] < 1.0 \
                and pend[namespec][0] != (target.idx if target else -1):
            self.findings.append(('requested-twice', f'{where}: already requested at t={pend[namespec][1]} on instance '
                                  f'{pend[namespec][0]}'))
        pend[namespec] = (target.idx if target is not None else -1, w.now)

    def after_instance_step(self, inst):
        # life cycle of the harness record of pending starts: dropped as soon as the process has left the stopped
        # states for the requester (it then counts as running load), when the target is lost, or after a minute
        if not inst.alive or inst.supvisors is None:
            return
        pend = self.pending.get((inst.idx, inst.incarnation))
        if not pend:
            return
        w = inst.world
        for namespec, (tidx, t0) in list(pend.items()):
            tstate = inst.supvisors.context.instances[w.instances[tidx].identifier].state.name if tidx >= 0 else 'STOPPED'
            if not self._stopped_for(inst, namespec) or tstate != 'RUNNING' or w.now - t0 > 60:
                del pend[namespec]

    def on_publication(self, inst, ptype, body):
        if ptype.name == 'PROCESS' and not body.get('forced') and body.get('identifier') == inst.identifier \
                and int(body['state']) in RUNNING_LIKE:
            # the target has acted upon the request: from now on the process is either running load or a start that
            # ended (a BACKOFF .. FATAL sequence can take place within one step, before the life cycle below runs)
            namespec = f"{body['group']}:{body['name']}"
            for pend in self.pending.values():
                entry = pend.get(namespec)
                if entry is not None and entry[0] == inst.idx:
                    del pend[namespec]
        if ptype.name == 'PROCESS' and body.get('forced'):
            # a start given up by the requester is not pending any more
            pend = self.pending.get((inst.idx, inst.incarnation))
            if pend is not None:
                pend.pop(f"{body['group']}:{body['name']}", None)
        if ptype.name != 'PROCESS' or not body.get('forced'):
            return
        if 'No resource available' not in str(body.get('spawnerr', '')):
            return
        namespec = f"{body['group']}:{body['name']}"
        if namespec not in self.ref.progs:
            return
        self.flags.add('no-resource')
        el = self.eligible(inst, namespec)
        a = self.ref.apps[self.ref.progs[namespec]['app']]
        if el and a['distribution'] == 'ALL_INSTANCES':
            # LOCAL strategy restricts to the requester: cannot be known from here, so only flag when the requester
            # itself is eligible
            if inst.idx in el:
                self.findings.append(('no-resource-although-eligible',
                                      f't={inst.world.now} {inst.nick} reports {namespec} FATAL "No resource available" '
                                      f'although instances {el} are eligible (itself included)'))

    def finish(self, world):
        return list(self.findings)


def make_monitors(episode):
    return [StartRequestMonitor(episode['config'])]


def evaluate(runner, monitors):
    seen = set()
    for sig, detail in monitors[0].finish(runner.world):
        if sig not in seen:
            seen.add(sig)
            yield sig, detail


def classify(runner, monitors, episode):
    mon = monitors[0]
    classes = fault_classes(runner) + sorted(mon.flags)
    if mon.requests:
        classes.append('with-start-requests')
    nontrivial = bool(mon.flags & {'pending-load', 'multi-instance-node', 'several-candidates'})
    return nontrivial, classes


CHECK = EpisodeCheck(PROPERTY_ID, episode_st(P), make_monitors, evaluate, classify, quick=800, thorough=12000,
                     suffix_kwargs={'ticks': 6, 'boot_dead': False})


def run_shard(ctx):
    return CHECK.run_shard(ctx)


def replay(case):
    return CHECK.replay(case)
