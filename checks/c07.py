"""C07 - Silent instances are detected in bounded time, live ones never declared lost (cluster simulator)."""
import json

from hypothesis import strategies as st

from clustersim.episode import Profile, episode_st
from clustersim.monitors import RestartTracker
from clustersim.world import Monitor
from checks.cluster import EpisodeCheck, fault_classes

PROPERTY_ID = 'C07'
LEVEL = 'exploration'
RULE = ('Hypothesis-generated episodes on the cluster simulator: 2-4 real instances, generated tick phases, per-queue '
        'delays, inactivity_ticks 2-5, both auto_fence values; crashes, restarts (also between two ticks), cuts, '
        'isolations and heals at any step, processes running / stopping slowly on the victims. Oracle per ordered pair '
        '(observer X, peer P), from harness-side records (local tick at which each TICK of P was received by X, '
        'incarnation of P at the handshake, failed calls X -> P): accuracy - P leaves RUNNING in the view of X only if '
        'more than inactivity_ticks local ticks passed without a TICK from P, or P restarted, or a call X -> P failed; '
        'completeness - at the first local tick with more than inactivity_ticks ticks of silence P is not active any '
        'more after that tick, one tick later it is STOPPED (ISOLATED iff auto_fence and the Master known to X is in a '
        'working state), nothing is listed as running on it; the per-peer state sequence follows a golden copy of '
        'the documented instance graph, the local instance is never ISOLATED, ISOLATED is final. Non-trivial = a '
        'peer seen RUNNING falls silent or restarts; distinct = distinct episodes.')
ASSUMPTIONS = ['when the silent peer was the observer\'s Master both STOPPED and ISOLATED are accepted (DESIGN 8.4)',
               'a restart that the tick counter cannot reveal (known finding) is reported under its own signature']
SHARDS = {'quick': 16, 'thorough': 16}

ACTIVE = {'CHECKING', 'CHECKED', 'RUNNING', 'FAILED'}
GOLDEN = {'STOPPED': {'CHECKING'}, 'CHECKING': {'STOPPED', 'CHECKED', 'FAILED', 'ISOLATED'},
          'CHECKED': {'RUNNING', 'FAILED'}, 'RUNNING': {'FAILED'}, 'FAILED': {'STOPPED', 'ISOLATED'}, 'ISOLATED': set()}
WORKING = {'ELECTION', 'DISTRIBUTION', 'OPERATION', 'CONCILIATION'}


class P(Profile):
    n_min = 2
    n_max = 4
    apps_max = 1
    progs_max = 2
    fault_ops = ('crash', 'restart', 'restart', 'restart_checked', 'cut', 'mute', 'mute', 'isolate', 'heal', 'heal_all', 'boot')
    proc_ops = ('direct_start', 'direct_start', 'direct_stop')
    user_ops = ()
    op_rate = 0.25
    steps_max = 70
    warmups = (30, 45, 60)
    hold_rate = 0.3
    stopwaitsecs = (1, 7, 23)
    sv_failure = ('CONTINUE',)
    sync_sets = ('TIMEOUT', 'LIST,TIMEOUT', 'CORE,TIMEOUT', 'STRICT,TIMEOUT', 'TIMEOUT,USER')


class DetectionMonitor(Monitor):
    def __init__(self, config):
        self.inact = int(config['options'].get('inactivity_ticks', 2))
        self.auto_fence = bool(config['options'].get('auto_fence'))
        self.findings = []
        self.rx = {}            # (X idx, X inc, P ident) -> local counter of X at last TICK reception
        self.state = {}         # (X idx, X inc, P ident) -> last state name
        self.failed_calls = {}  # (X idx, X inc, P ident) -> time of last failed call
        self.checking_at = {}   # (X idx, X inc, P ident) -> time at which X last moved P to CHECKING
        self.due = {}           # (X idx, X inc, P ident) -> local tick at which P had to be non active; checks pending
        self.last_tick = {}     # X idx -> ticks_sent seen
        self.flags = set()
        from supvisors.ttypes import SUPVISORS_PUBLICATION, PublicationHeaders
        self.publication_type = SUPVISORS_PUBLICATION
        self.tick_code = PublicationHeaders.TICK.value
        self.pending_fail = {}  # key -> time of the first failed call made while the peer was RUNNING
        self.tracker = None

    def attach(self, runner):
        self.runner = runner
        for m in runner.world.monitors:
            if isinstance(m, RestartTracker):
                self.tracker = m

    def _key(self, inst, ident):
        return (inst.idx, inst.incarnation, ident)

    def _counter(self, inst):
        return inst.supvisors.context.local_status.times.remote_sequence_counter

    def on_rpc(self, src, dst, name, args, outcome, result):
        if dst is None:
            return
        if outcome == 'oserror' and src is not dst:
            key = self._key(src, dst.identifier)
            self.failed_calls[key] = src.world.now
            if self.state.get(key) == 'RUNNING' and key not in self.pending_fail:
                self.pending_fail[key] = src.world.now
            return
        if name == 'supervisor.sendRemoteCommEvent' and outcome == 'ok' and src is not dst \
                and args[0] == self.publication_type:
            origin, (ptype, body) = json.loads(args[1])
            if ptype == self.tick_code:
                local = dst.supvisors.context.local_status.state.name
                if local in ('CHECKED', 'RUNNING'):
                    self.rx[self._key(dst, src.identifier)] = self._counter(dst)

    def on_instance_state(self, inst, identifier, new_state):
        key = self._key(inst, identifier)
        prev = self.state.get(key, 'STOPPED')
        new = new_state.name
        self.state[key] = new
        w = inst.world
        if new == 'CHECKING':
            self.checking_at[key] = w.now
        if new != 'RUNNING':
            self.pending_fail.pop(key, None)
        if prev == 'FAILED' and new == 'STOPPED' and self.auto_fence and identifier != inst.identifier:
            sm = inst.supvisors.state_modes
            master = sm.master_identifier
            mstate = sm.master_state.name if sm.master_state is not None else None
            if master and master != identifier and mstate in ('DISTRIBUTION', 'OPERATION', 'CONCILIATION'):
                self.findings.append(('fencing:not-ISOLATED-with-auto_fence',
                                      f't={w.now} {inst.nick} set silent {identifier} to STOPPED although auto_fence is '
                                      f'on and its Master {master} is in {mstate}'))
            self.flags.add('auto-fence-decision')
        if new not in GOLDEN.get(prev, set()):
            self.findings.append((f'instance-graph:{prev}->{new}', f't={w.now} {inst.nick} moved {identifier} {prev} -> {new}'))
        if identifier == inst.identifier and new == 'ISOLATED':
            self.findings.append(('local-isolated', f't={w.now} {inst.nick} isolated itself'))
        if prev == 'RUNNING' and new == 'FAILED':
            peer = w.by_identifier(identifier)
            n = self._counter(inst)
            rx = self.rx.get(key)
            silent = rx is None or n - rx > self.inact
            restarted = False
            if self.tracker is not None and peer is not None:
                rec = self.tracker.checked.get((inst.idx, identifier))
                restarted = rec is not None and rec != peer.incarnation
            # a restart that took place while the handshake was in progress (the TICK that opened it came from the
            # previous incarnation, the answers from the new one whose TICK counter starts again from 0)
            t_check = self.checking_at.get(key)
            if not restarted and peer is not None and t_check is not None:
                restarted = any(rec[1] == 'crash' and rec[2] == peer.idx and rec[0] >= t_check - 1.0 for rec in w.log)
            failed_call = self.failed_calls.get(key) is not None and w.now - self.failed_calls[key] <= 6.0
            dead = peer is None or not peer.alive
            self.flags.add('running-peer-lost')
            if restarted:
                self.flags.add('restart-detected')
            if not (silent or restarted or failed_call or dead):
                self.findings.append(('accuracy:live-peer-declared-FAILED',
                                      f't={w.now} {inst.nick} declared {identifier} FAILED at local tick {n} although its '
                                      f'last TICK was received at local tick {rx} (inactivity_ticks={self.inact}), it did '
                                      f'not restart and no call to it failed'))

    def after_instance_step(self, inst):
        if not inst.alive or inst.supvisors is None:
            return
        if self.last_tick.get((inst.idx, inst.incarnation)) == inst.ticks_sent:
            return
        self.last_tick[(inst.idx, inst.incarnation)] = inst.ticks_sent
        ctx = inst.supvisors.context
        if ctx.local_status.state.name not in ('CHECKED', 'RUNNING'):
            return
        n = self._counter(inst)
        w = inst.world
        master = inst.supvisors.state_modes.master_identifier
        for key, t_f in list(self.pending_fail.items()):
            if key[0] == inst.idx and key[1] == inst.incarnation and w.now - t_f > 10.0:
                del self.pending_fail[key]
                self.findings.append(('completeness:failed-call-not-followed-by-FAILED',
                                      f't={w.now} {inst.nick}: a call to {key[2]} failed at t={t_f} while it was RUNNING; it '
                                      f'has not left RUNNING since'))
        for ident, status in ctx.instances.items():
            if ident == inst.identifier:
                continue
            key = self._key(inst, ident)
            name = status.state.name
            rx = self.rx.get(key)
            if key in self.due:
                due_tick, was_master, fence_expected = self.due[key]
                if n >= due_tick + 1:
                    del self.due[key]
                    # one tick after detection: STOPPED, or ISOLATED iff auto_fence and Master in a working state
                    if name in ('FAILED',):
                        self.findings.append(('completeness:still-FAILED-one-tick-later',
                                              f't={w.now} {inst.nick} still reports {ident} FAILED'))
                    listed = [p.namespec for app in ctx.applications.values() for p in app.processes.values()
                              if ident in p.running_identifiers]
                    if listed and name in ('STOPPED', 'ISOLATED'):
                        self.findings.append(('completeness:process-still-listed-on-lost-instance',
                                              f't={w.now} {inst.nick}: {listed} still listed as running on {ident} '
                                              f'({name})'))
            if name in ACTIVE and name != 'FAILED' and rx is not None and n - rx > self.inact and key not in self.due:
                # the periodic check of this very tick had to declare it FAILED (and the FSM to invalidate it)
                self.findings.append(('completeness:silent-peer-still-active',
                                      f't={w.now} {inst.nick} local tick {n}: {ident} still {name} although its last '
                                      f'TICK was received at local tick {rx} (inactivity_ticks={self.inact})'))
            if name in ('STOPPED', 'ISOLATED') and self.state.get(key) == name and rx is not None \
                    and n - rx > self.inact and key not in self.due:
                pass
        # schedule the follow-up check for peers that have just been invalidated in this tick
        for rec in reversed(w.log[-400:]):
            if rec[0] < w.now:
                break
            if rec[1] == 'inst_state' and rec[2] == inst.idx and rec[3] == inst.incarnation and rec[5] in ('STOPPED', 'ISOLATED'):
                ident = rec[4]
                key = self._key(inst, ident)
                if key not in self.due:
                    self.due[key] = (n, ident == master, None)
                    self.flags.add('invalidation-followed')
                    # fencing rule
                    if rec[5] == 'ISOLATED' and not self.auto_fence:
                        prev_checking = False
                        # ISOLATED without auto_fence is only legitimate from the handshake (NOT_AUTHORIZED / INCONSISTENT)
                        hist = [r for r in w.log if r[1] == 'inst_state' and r[2] == inst.idx and r[3] == inst.incarnation
                                and r[4] == ident]
                        if len(hist) >= 2 and hist[-2][5] == 'FAILED':
                            self.findings.append(('fencing:ISOLATED-without-auto_fence',
                                                  f't={w.now} {inst.nick} isolated silent {ident} although auto_fence is off'))

    def finish(self, world):
        return list(self.findings)


def make_monitors(episode):
    return [RestartTracker(), DetectionMonitor(episode['config'])]


def evaluate(runner, monitors):
    seen = set()
    for sig, detail in monitors[1].finish(runner.world):
        if sig not in seen:
            seen.add(sig)
            yield sig, detail


def classify(runner, monitors, episode):
    mon = monitors[1]
    classes = fault_classes(runner) + sorted(mon.flags)
    return 'running-peer-lost' in mon.flags, classes


CHECK = EpisodeCheck(PROPERTY_ID, episode_st(P), make_monitors, evaluate, classify, quick=800, thorough=12000,
                     suffix_kwargs={'ticks': 8, 'boot_dead': False})


def run_shard(ctx):
    return CHECK.run_shard(ctx)


def replay(case):
    return CHECK.replay(case)
