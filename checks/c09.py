"""C09 - Stop sequences are honoured; restart/shutdown is orderly and reaches everyone (cluster simulator)."""
from hypothesis import strategies as st

from clustersim.episode import Profile, episode_st
from clustersim.rulesref import RulesRef
from clustersim.world import Monitor
from checks.cluster import EpisodeCheck, fault_classes

PROPERTY_ID = 'C09'
LEVEL = 'exploration'
RULE = ('Hypothesis-generated episodes on the cluster simulator: 2-4 real instances, rules with stop_sequence at both '
        'levels (explicit or inherited from start_sequence), unmanaged applications, placements over several instances, '
        'children stopping promptly / slowly / ignoring TERM / unkillable; stop_application / restart_application on any '
        'instance, supvisors.restart / shutdown on Master and non-Master (also repeated and mixed), loss of a non-Master '
        'during the ending phase. Oracle: at each stop request for p, no process of the same application with a higher '
        'stop_sequence (in the ending phase: no process of an application with a higher application stop_sequence) is '
        'still STARTING / RUNNING / BACKOFF / STOPPING on an instance the emitter lists it on and sees RUNNING, unless its '
        'stop was given up (forced STOPPED published); the target is listed for p by the emitter. Every live instance '
        'receives at most one supervisor.restart / shutdown order per incarnation, none while the Master still has '
        'stop jobs or managed processes running (unless given up), a non-Master forwards the request exactly once, and '
        'after the suffix every instance that received the order has left. Non-trivial = >= 2 stop levels with a slow '
        'or stuck process, or an ending phase with >= 2 instances; distinct = distinct episodes.')
ASSUMPTIONS = ['all stop requests of this profile come from application stop jobs (no stop_process, USER conciliation)',
               'a copy the emitter does not list (stale view) cannot be sequenced and is ignored']
SHARDS = {'quick': 16, 'thorough': 16}

ACTIVE = (10, 20, 30, 40)


class P(Profile):
    n_min = 2
    n_max = 4
    apps_max = 2
    progs_max = 3
    stopwaitsecs = (1, 7, 12)
    startsecs = (0, 1)
    fault_ops = ('crash',)     # quantifier: loss of an instance during the ending phase (no boot after warm-up)
    proc_ops = ('exit',)      # (crashes of children; still no external start while Supvisors stops things (a copy started after the plan is not sequenced)
    user_ops = ('rpc_stop', 'rpc_stop', 'rpc_stop_proc', 'rpc_end', 'rpc_stop', 'rpc_stop_proc', 'rpc_end')
    starting = ('CONFIG', 'LESS_LOADED', 'MOST_LOADED', 'LOCAL')
    op_rate = 0.3
    ops_per_step_max = 2
    steps_max = 50
    warmups = (30, 45, 45)
    sv_failure = ('CONTINUE',)
    sync_sets = ('TIMEOUT', 'LIST,TIMEOUT')
    conciliation = ('USER',)
    running_failure = ('CONTINUE', 'STOP_APPLICATION', 'RESTART_APPLICATION')
    wait_exit = 0.0
    sequences = (1, 1, 2, 3)
    stop_sequences = (0, 0, 1, 2, 3)     # an explicit 0 is not "unset": it does not inherit the start_sequence
    unkillable = True
    default_behaviours = ('run', 'run', 'very_slow_stop', 'ignore_term')
    behaviours_max = 3
    auto_fence = (False,)
    managed = 0.8


class StopOrderMonitor(Monitor):
    def __init__(self, config):
        self.config = config
        self.ref = RulesRef(config)
        self.findings = []
        self.given_up = set()       # (X idx, X inc, namespec): forced STOPPED published by X
        self.orders = {}            # (dst idx, dst inc) -> list of (time, method, src idx)
        self.forwards = {}          # (src idx, src inc, method) -> count
        self.user_end = {}          # (idx, inc) -> number of restart/shutdown user requests accepted
        self.flags = set()
        self.levels = set()
        self.individual = {}        # (idx, application) -> namespecs of the last individual stop / restart_process request
        self.seen_master_ending = set()   # (idx, inc) whose view of the Master state reached an ending state
        self.plan_time = {}         # (idx, inc, application) -> time of the first stop request of the stop job in progress
        self.start_requests = {}    # namespec -> (time, idx) of the last START_PROCESS request emitted by a Supvisors instance
        self.end_requests = []      # accepted user restart / shutdown: dict(time, src, method, master, members)
        self.final_pub = set()      # (idx, inc) that published the FINAL state
        self.ending_entered = {}    # (idx, inc) -> first time the instance published RESTARTING / SHUTTING_DOWN
        self.crashed = set()        # (idx, inc) lost by an injected crash
        self.config_ticks = config['options'].get('inactivity_ticks', 2)

    def on_user_rpc_begin(self, inst, name, args):
        method = name.split('.')[-1]
        try:
            if method in ('stop_process', 'restart_process'):
                # an individual stop request is not "stopping an application": no ordering obligation for these processes
                spec = args[0] if method == 'stop_process' else args[1]
                app, _, proc = spec.partition(':')
                names = {q['namespec'] for q in self.ref.apps.get(app, {'programs': []})['programs']
                         if proc in ('*', '') or q['namespec'] == spec}
                self.individual.setdefault((inst.idx, app), set()).update(names)
            elif method in ('stop_application', 'restart_application'):
                self.individual.pop((inst.idx, args[0] if method == 'stop_application' else args[1]), None)
        except (IndexError, AttributeError, TypeError):
            pass

    def on_user_rpc(self, inst, name, args, outcome):
        if name not in ('supvisors.restart', 'supvisors.shutdown') or outcome[0] != 'ok':
            return
        w = inst.world
        master_ident = inst.supvisors.state_modes.master_identifier
        master = w.by_identifier(master_ident) if master_ident else None
        if master is None or not master.alive:
            return
        # the instances that share the requester's Master and see each other RUNNING at that time
        members = []
        working = ('DISTRIBUTION', 'OPERATION', 'CONCILIATION')
        # the quantifier covers the LOSS of instances during the ending phase, not instances joining while the
        # request is issued (a Slave back in ELECTION for a newcomer does not follow a RESTARTING Master):
        # the delivery oracle only applies to a settled cluster
        if any(peer.alive and peer.supvisors is not None and (peer.supvisors.fsm.state.name not in working
               or peer.supvisors.state_modes.master_identifier != master_ident) for peer in w.instances):
            self.flags.add('end-request-on-unsettled-cluster')
            return
        for peer in w.instances:
            if not peer.alive or peer.supvisors is None:
                continue
            sm = peer.supvisors.state_modes
            if sm.master_identifier != master_ident:
                continue
            mine = inst.supvisors.context.instances.get(peer.identifier)
            theirs = peer.supvisors.context.instances.get(inst.identifier)
            if mine is None or theirs is None or mine.state.name != 'RUNNING' or theirs.state.name != 'RUNNING':
                continue
            members.append((peer.idx, peer.incarnation))
        self.flags.add('end-request-accepted')
        self.end_requests.append({'time': w.now, 'src': (inst.idx, inst.incarnation), 'method': name.split('.')[1],
                                  'master': (master.idx, master.incarnation), 'members': members})

    def on_publication(self, inst, ptype, body):
        if ptype.name == 'STATE':
            state = body.get('fsm_statename')
            key = (inst.idx, inst.incarnation)
            if state == 'FINAL':
                self.final_pub.add(key)
            elif state in ('RESTARTING', 'SHUTTING_DOWN'):
                self.ending_entered.setdefault(key, inst.world.now)
        if ptype.name == 'PROCESS' and body.get('forced') and int(body['state']) == 0:
            self.given_up.add((inst.idx, inst.incarnation, f"{body['group']}:{body['name']}"))

    def _given_up(self, inst, namespec):
        """The stop of the process was given up on timeout by inst: forced STOPPED state published by inst, or already
        applied to its own view (the local update precedes the publication and triggers the next stop requests)."""
        if (inst.idx, inst.incarnation, namespec) in self.given_up:
            return True
        app, _, name = namespec.partition(':')
        a = inst.supvisors.context.applications.get(app)
        if a is None or name not in a.processes:
            return False
        forced = a.processes[name].forced_state
        if forced is not None and int(forced) == 0:
            self.given_up.add((inst.idx, inst.incarnation, namespec))
            return True
        return False

    def _listed_active(self, inst, namespec):
        """Instances (idx) on which inst lists the process AND sees them RUNNING AND where it is truly active."""
        w = inst.world
        app, _, name = namespec.partition(':')
        a = inst.supvisors.context.applications.get(app)
        if a is None or name not in a.processes:
            return []
        out = []
        for ident in a.processes[name].running_identifiers:
            peer = w.by_identifier(ident)
            if peer is None or not peer.alive:
                continue
            if inst.supvisors.context.instances[ident].state.name != 'RUNNING':
                continue
            if peer.truth().get(namespec) in ACTIVE:
                out.append(peer.idx)
        return out

    def _late_start(self, inst, namespec, ending):
        """Diagnosis: the start request of the process was still in flight, or was emitted later (by a Starter job that
        the stop request does not abort, or by the Starter of an instance that had not yet followed the Master), when
        inst computed its stop plan. The plan is computed once (when the stop is requested / when entering the ending
        state) from the processes running at that time, and does not include it."""
        app = namespec.partition(':')[0]
        if ending:
            planned = self.ending_entered.get((inst.idx, inst.incarnation))
        else:
            planned = self.plan_time.get((inst.idx, inst.incarnation, app))
        started = self.start_requests.get(namespec)
        if planned is None or started is None:
            return ''
        if started[2] in ('RESTARTING', 'SHUTTING_DOWN', 'FINAL'):
            return ''      # not the race of the known finding: reported by start-request-while-ending
        if started[0] >= planned - (self.config.get('max_delay', 2) + 1.0):
            return ':process-started-after-stop-plan'
        return ''

    def after_instance_step(self, inst):
        if not inst.alive or inst.supvisors is None:
            return
        master_state = inst.supvisors.state_modes.master_state
        if master_state is not None and master_state.name in ('RESTARTING', 'SHUTTING_DOWN', 'FINAL'):
            self.seen_master_ending.add((inst.idx, inst.incarnation))
        if not self.plan_time:
            return
        names = inst.supvisors.stopper.get_application_job_names()
        for key in [k for k in self.plan_time if k[0] == inst.idx and (k[1] != inst.incarnation or k[2] not in names)]:
            del self.plan_time[key]

    def on_request(self, inst, identifier, rtype, body):
        w = inst.world
        if rtype.name in ('RESTART_ALL', 'SHUTDOWN_ALL'):
            key = (inst.idx, inst.incarnation, rtype.name)
            self.forwards[key] = self.forwards.get(key, 0) + 1
            return
        if rtype.name == 'START_PROCESS':
            state = inst.supvisors.fsm.state.name
            self.start_requests[body[0]] = (w.now, inst.idx, state)
            if state in ('RESTARTING', 'SHUTTING_DOWN', 'FINAL'):
                # nothing is started by an instance that is itself ending (jobs are aborted when entering the state)
                self.findings.append(('start-request-while-ending', f't={w.now} {inst.nick} in {state} requests the start '
                                      f'of {body[0]} on {identifier}'))
            return
        if rtype.name != 'STOP_PROCESS':
            return
        namespec = body[0]
        app_name, _, name = namespec.partition(':')
        where = f't={w.now} {inst.nick} -> {identifier} stop {namespec}'
        # target listed by the emitter
        a = inst.supvisors.context.applications.get(app_name)
        listed = set(a.processes[name].running_identifiers) if a is not None and name in a.processes else set()
        if identifier not in listed:
            self.findings.append(('stop-sent-where-not-running', f'{where}: the emitter lists it on {sorted(listed)}'))
        p = self.ref.progs.get(namespec)
        if p is None:
            return
        ending = inst.supvisors.fsm.state.name in ('RESTARTING', 'SHUTTING_DOWN')
        self.plan_time.setdefault((inst.idx, inst.incarnation, app_name), w.now)
        self.levels.add((app_name, p['stop_sequence']))
        # process level
        exempt = not ending and namespec in self.individual.get((inst.idx, app_name), ())
        for q in self.ref.apps[app_name]['programs'] if not exempt else ():
            if q['stop_sequence'] > p['stop_sequence'] and not self._given_up(inst, q['namespec']):
                still = self._listed_active(inst, q['namespec'])
                if still:
                    self.findings.append(('stop-order:process' + self._late_start(inst, q['namespec'], ending), f'{where} (stop_sequence {p["stop_sequence"]}) while '
                                          f'{q["namespec"]} (stop_sequence {q["stop_sequence"]}) is still active on '
                                          f'instances {still}'))
        # application level (ending phase: all applications are stopped by the Master)
        if ending:
            self.flags.add('ending-phase-stops')
            for other in self.ref.apps.values():
                if other['name'] == app_name or other['stop_sequence'] <= self.ref.apps[app_name]['stop_sequence']:
                    continue
                for q in other['programs']:
                    if self._given_up(inst, q['namespec']):
                        continue
                    still = self._listed_active(inst, q['namespec'])
                    if still:
                        self.findings.append(('stop-order:application' + self._late_start(inst, q['namespec'], True), f'{where} (application stop_sequence '
                                              f'{self.ref.apps[app_name]["stop_sequence"]}) while {q["namespec"]} of '
                                              f'application {other["name"]} (stop_sequence {other["stop_sequence"]}) is '
                                              f'still active on {still}'))

    def on_rpc(self, src, dst, name, args, outcome, result):
        if name not in ('supervisor.restart', 'supervisor.shutdown') or outcome != 'ok' or dst is None:
            return
        w = src.world
        key = (dst.idx, dst.incarnation)
        self.orders.setdefault(key, []).append((w.now, name, src.idx))
        self.flags.add('order-sent')
        if len(self.orders[key]) > 1:
            self.findings.append(('several-orders', f't={w.now} {dst.nick} received {len(self.orders[key])} restart / '
                                  f'shutdown orders in one incarnation: {self.orders[key]}'))
        # the Master must have finished stopping
        master_ident = src.supvisors.state_modes.master_identifier
        master = w.by_identifier(master_ident) if master_ident else None
        if master is not None and master.alive and master.supvisors is not None:
            stopper = master.supvisors.stopper
            if stopper.in_progress():
                self.findings.append(('order-before-stopper-idle', f't={w.now} {name.split(".")[1]} order sent to {dst.nick} '
                                      f'by {src.nick} while the Stopper of the Master {master.nick} is still working'))
            for namespec, p in self.ref.progs.items():
                if not self.ref.apps[p['app']]['managed']:
                    continue
                if self._given_up(master, namespec):
                    continue
                still = self._listed_active(master, namespec)
                if still:
                    self.findings.append(('order-while-processes-running' + self._late_start(master, namespec, True), f't={w.now} {name.split(".")[1]} order sent to '
                                          f'{dst.nick} while {namespec} is still active on {still} (Master view and truth)'))
                    break

    def finish(self, world):
        out = list(self.findings)
        end = world.now
        slack = (self.config_ticks + 3) * 5.0
        gone = {(rec[2], rec[3]) for rec in world.log if rec[1] == 'crash'}
        for req in self.end_requests:
            m_idx, m_inc = req['master']
            master = world.instances[m_idx]
            if (m_idx, m_inc) in gone or req['src'] in gone:
                continue    # loss of the Master (or of the requester before forwarding) is outside the quantifier
            m_orders = self.orders.get((m_idx, m_inc), [])
            if not m_orders:
                # the order must at least have reached the Master
                if (m_idx, m_inc) not in self.ending_entered and end - req['time'] >= 30.0:
                    out.append(('end-request-lost', f"t={req['time']} supvisors.{req['method']} accepted on "
                                f"{world.instances[req['src'][0]].nick} but the Master {master.nick} never entered "
                                f"the ending state (still alive {end - req['time']}s later)"))
                continue    # still stopping at the end of the episode: inconclusive (bounded stops are C10)
            t_order = m_orders[0][0]
            if end - t_order < slack:
                continue
            self.flags.add('ending-phase-completed')
            for (idx, inc) in req['members']:
                if (idx, inc) in gone:
                    continue
                inst = world.instances[idx]
                got = self.orders.get((idx, inc), [])
                if not got:
                    # diagnosis: the STATE publications of the Master (ending state, FINAL) were still queued in its
                    # proxy when its Supervisor exited (SupervisorProxyThread.run leaves without draining its queue)
                    diag = '' if (idx, inc) in self.seen_master_ending else ':master-exited-before-its-state-was-delivered'
                    out.append(('order-missing' + diag, f"{inst.nick} (incarnation {inc}) shared the Master {master.nick} when "
                                f"supvisors.{req['method']} was accepted at t={req['time']}; the Master applied its own "
                                f"order at t={t_order} but {inst.nick} never received one (end t={end})"))
                elif (idx, inc) not in self.final_pub:
                    out.append(('order-without-final', f'{inst.nick} received {got} but never published the FINAL state'))
        # every instance that received the order has left (supervisord stops / restarts)
        for (idx, inc), orders in self.orders.items():
            inst = world.instances[idx]
            if inst.alive and inst.incarnation == inc and not inst.stopping:
                out.append(('order-not-applied', f'{inst.nick} received {orders} but is still running the same incarnation'))
        return out


def make_monitors(episode):
    return [StopOrderMonitor(episode['config'])]


def evaluate(runner, monitors):
    seen = set()
    for sig, detail in monitors[0].finish(runner.world):
        if sig not in seen:
            seen.add(sig)
            yield sig, detail


def classify(runner, monitors, episode):
    mon = monitors[0]
    classes = fault_classes(runner) + sorted(mon.flags)
    apps_with_levels = {}
    for app, level in mon.levels:
        apps_with_levels.setdefault(app, set()).add(level)
    multi = any(len(v) >= 2 for v in apps_with_levels.values())
    if multi:
        classes.append('two-stop-levels-exercised')
    ending_multi = 'order-sent' in mon.flags and len({k[0] for k in mon.orders}) >= 2
    if ending_multi:
        classes.append('ending-phase-several-instances')
    return multi or ending_multi, classes


CHECK = EpisodeCheck(PROPERTY_ID, episode_st(P), make_monitors, evaluate, classify, quick=800, thorough=12000,
                     suffix_kwargs={'ticks': 12, 'boot_dead': False})


def run_shard(ctx):
    return CHECK.run_shard(ctx)


def replay(case):
    return CHECK.replay(case)
