#!/venv/bin/python
"""Sensitivity self-test (not a registered check).

    selftest.py [ID ...] [--only NAME] [--tier quick] [--seeds 1]

For each mutant of /verif/mutants/<ID>/ (``*.json``: textual replacements; ``*.patch`` / seeded ``patch.diff``:
unified diffs) a scratch copy of the repository is created outside /repo and /verif, the mutant applied, the check
run with VERIF_REPO pointing at the copy, and exit 1 + VIOLATION expected. The copy is removed afterwards.
Seeded changes kept under /verif/seeded/<name>/ (meta.json names the property) are exercised the same way.
"""
import argparse
import glob
import json
import os
import shutil
import subprocess
import sys
import tempfile

VERIF = os.path.dirname(os.path.abspath(__file__))
REPO = '/repo'


def make_copy():
    base = '/dev/shm' if os.path.isdir('/dev/shm') else None
    d = tempfile.mkdtemp(prefix='verif-mutant-', dir=base)
    shutil.copytree(os.path.join(REPO, 'supvisors'), os.path.join(d, 'supvisors'),
                    ignore=shutil.ignore_patterns('__pycache__', 'tests', 'test'))
    return d


def apply_json(copy, spec):
    for rep in spec['replacements']:
        path = os.path.join(copy, rep['file'])
        src = open(path).read()
        if src.count(rep['old']) < 1:
            raise RuntimeError(f'mutant {spec.get("name")}: pattern not found in {rep["file"]}: {rep["old"][:60]!r}')
        src = src.replace(rep['old'], rep['new'], rep.get('count', 1))
        open(path, 'w').write(src)


def apply_patch(copy, patch_path):
    res = subprocess.run(['patch', '-p1', '-s', '--no-backup-if-mismatch', '-i', patch_path], cwd=copy,
                         capture_output=True, text=True)
    if res.returncode != 0:
        raise RuntimeError(f'patch {patch_path} does not apply: {res.stdout} {res.stderr}')


def run_check(pid, copy, tier, seed):
    env = dict(os.environ, VERIF_REPO=copy, VERIF_SEED=str(seed), VERIF_SELFTEST='1')
    env.pop('PYTHONHASHSEED', None)
    res = subprocess.run(['/venv/bin/python', os.path.join(VERIF, 'run_check.py'), pid, '--tier', tier],
                         cwd=VERIF, env=env, capture_output=True, text=True)
    return res.returncode, res.stdout + res.stderr


def collect(pids, only):
    items = []
    for pid in pids:
        for path in sorted(glob.glob(os.path.join(VERIF, 'mutants', pid, '*'))):
            name = os.path.basename(path)
            if only and only not in name:
                continue
            items.append((pid, name, path))
    for meta_path in sorted(glob.glob(os.path.join(VERIF, 'seeded', '*', 'meta.json'))):
        meta = json.load(open(meta_path))
        d = os.path.dirname(meta_path)
        name = 'seeded/' + os.path.basename(d)
        for pid in meta.get('checks', [meta['property']]):
            if pid in pids and (not only or only in name):
                items.append((pid, name, os.path.join(d, 'patch.diff')))
    return items


def main():
    ap = argparse.ArgumentParser()
    ap.add_argument('ids', nargs='*')
    ap.add_argument('--only')
    ap.add_argument('--tier', default='quick')
    ap.add_argument('--seeds', type=int, default=1)
    ap.add_argument('--save-regressions', action='store_true',
                    help='keep the failing input found against each reverse patch of a repaired defect '
                         '(mutants/<ID>/revert-fix-*.patch) as regressions/<ID>-<name>.json')
    args = ap.parse_args()
    pids = [p.upper() for p in args.ids] or sorted(os.listdir(os.path.join(VERIF, 'mutants')))
    # evidence / replays written by mutant runs must not pollute the committed ones
    saved = tempfile.mkdtemp(prefix='verif-saved-')
    for sub in ('evidence', 'replays'):
        if os.path.isdir(os.path.join(VERIF, sub)):
            shutil.copytree(os.path.join(VERIF, sub), os.path.join(saved, sub))
    missed = []
    try:
        for pid, name, path in collect(pids, args.only):
            copy = make_copy()
            try:
                try:
                    if path.endswith('.json'):
                        apply_json(copy, json.load(open(path)))
                    else:
                        apply_patch(copy, path)
                except RuntimeError as exc:
                    # the mutant does not apply to the current tree any more (the code it changes was repaired / moved)
                    print(f"{'STALE':14s} {pid} {name} [{str(exc)[:150]!r}]", flush=True)
                    missed.append((pid, name))
                    continue
                caught = False
                out = ''
                for seed in range(1, args.seeds + 1):
                    code, out = run_check(pid, copy, args.tier, seed)
                    if code == 1 and 'VIOLATION property=' in out:
                        caught = True
                        if args.save_regressions and name.startswith('revert-fix-'):
                            os.makedirs(os.path.join(VERIF, 'regressions'), exist_ok=True)
                            for k, ln in enumerate(l for l in out.splitlines() if l.startswith('VIOLATION property=')):
                                rp = ln.split('replay=', 1)[1].strip()
                                dst = os.path.join(VERIF, 'regressions', f'{pid}-{name[:-6]}-{k}.json')
                                shutil.copy(os.path.join(VERIF, rp), dst)
                        break
                    if code == 2:
                        break
                sig = [ln.strip() for ln in out.splitlines() if ln.strip().startswith('finding ')][:2]
                status = 'CAUGHT' if caught else ('HARNESS-ERROR' if code == 2 else 'MISSED')
                print(f"{status:14s} {pid} {name} {sig}", flush=True)
                if not caught:
                    missed.append((pid, name))
                    if code == 2:
                        print(out[-1500:])
            finally:
                shutil.rmtree(copy, ignore_errors=True)
    finally:
        for sub in ('evidence', 'replays'):
            shutil.rmtree(os.path.join(VERIF, sub), ignore_errors=True)
            if os.path.isdir(os.path.join(saved, sub)):
                shutil.copytree(os.path.join(saved, sub), os.path.join(VERIF, sub))
        shutil.rmtree(saved, ignore_errors=True)
    print(f'{len(missed)} mutant(s) not caught: {missed}')
    return 1 if missed else 0


if __name__ == '__main__':
    sys.exit(main())
