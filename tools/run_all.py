#!/venv/bin/python
"""Runs every registered check (quick tier by default) on /repo and summarises exit codes: tools/run_all.py [tier] [seed]"""
import json, os, subprocess, sys, time
VERIF = os.path.dirname(os.path.dirname(os.path.abspath(__file__)))
tier = sys.argv[1] if len(sys.argv) > 1 else 'quick'
seed = sys.argv[2] if len(sys.argv) > 2 else '1'
man = json.load(open(os.path.join(VERIF, 'MANIFEST.json')))
bad = 0
for c in man['checks']:
    cmd = c['quick_cmd'] if tier == 'quick' else c['thorough_cmd']
    t0 = time.time()
    env = dict(os.environ, VERIF_SEED=seed, VERIF_TIER=tier)
    env.pop('PYTHONHASHSEED', None)
    r = subprocess.run(cmd, shell=True, cwd=VERIF, env=env, capture_output=True, text=True)
    lines = [ln for ln in r.stdout.splitlines() if ln.startswith(('VIOLATION', 'KNOWN-FINDING', 'HARNESS', 'INCONCLUSIVE'))]
    print(f"{c['property_id']} exit={r.returncode} {time.time() - t0:.0f}s " + ' | '.join(ln[:110] for ln in lines[:4]), flush=True)
    if r.returncode != 0:
        bad += 1
        print(r.stdout[-800:], r.stderr[-500:])
sys.exit(1 if bad else 0)
