#!/venv/bin/python
"""Runs the repository's pinned test suite (guard OFF) and compares with /root/.vp/BASELINE.json stable_pass."""
import json
import os
import subprocess
import sys
import tempfile
import xml.etree.ElementTree as ET

repo = os.environ.get('VERIF_REPO', '/repo')
base = json.load(open('/root/.vp/BASELINE.json'))
fd, path = tempfile.mkstemp(suffix='.xml')
os.close(fd)
env = dict(os.environ)
env.pop('SUPVISORS_VERIF', None)
cmd = ['/venv/bin/python', '-m', 'pytest', '-ra', '-q', '-p', 'no:cacheprovider', '--timeout=900',
       '--continue-on-collection-errors', f'--junitxml={path}']
proc = subprocess.run(cmd, cwd=repo, env=env, stdout=subprocess.PIPE, stderr=subprocess.STDOUT, text=True)
passed = set()
for tc in ET.parse(path).getroot().iter('testcase'):
    if not any(child.tag in ('failure', 'error', 'skipped') for child in tc):
        passed.add(f"{tc.get('classname')}::{tc.get('name')}")
os.unlink(path)
stable = base['stable_pass']
if isinstance(stable, list):
    missing = [t for t in stable if t not in passed]
    print(f'baseline: {len(stable) - len(missing)}/{len(stable)} stable tests pass; missing_modules={sorted(set(m.split("::")[0] for m in missing))} missing={missing[:40]}')
    sys.exit(1 if missing else 0)
print(f'baseline: {len(passed)} passed (expected {stable})')
sys.exit(0 if len(passed) >= int(stable) else 1)
