#!/venv/bin/python
"""Pretty-print an episode JSON (file arg) and optionally re-run it printing the main observations."""
import json, sys, os, warnings
warnings.filterwarnings('ignore')
sys.path.insert(0, os.path.dirname(os.path.dirname(os.path.abspath(__file__))))
from vlib.core import setup_paths
setup_paths()
d = json.load(open(sys.argv[1]))
ep = d['case'] if 'case' in d else d
c = ep['config']
print({k: c[k] for k in c if k != 'apps'})
for a in c['apps']:
    print(a['name'], 'managed' if a['managed'] else 'unmanaged', a['rules'])
    for p in a['programs']:
        print('   ', p)
for k, s in enumerate(ep['steps']):
    if s:
        print(k + 1, s)
if len(sys.argv) > 2:
    from clustersim.episode import Runner
    from clustersim.monitors import InternalErrorMonitor, StateGraphMonitor, ConvergenceMonitor, live_view
    mons = [InternalErrorMonitor(), StateGraphMonitor(), ConvergenceMonitor(c)]
    suffix = {'boot_dead': True}
    check = None
    if len(sys.argv) > 3:
        import importlib
        check = importlib.import_module('checks.' + sys.argv[3].lower()).CHECK
        mons = check.make_monitors(ep)
        suffix = check.suffix_kwargs
    r = Runner(ep, mons)
    r.run_prefix()
    r.run_suffix(**suffix)
    kinds = set(sys.argv[2].split(','))
    for rec in r.world.log:
        if rec[1] in kinds or 'all' in kinds:
            print(rec)
    if check is not None:
        for f in check.evaluate(r, mons):
            print('FINDING', f)
    else:
        for m in mons:
            for f in m.finish(r.world):
                print('FINDING', f)
    for inst in r.world.instances:
        if inst.alive:
            print(inst.nick, live_view(inst))
            print('   truth', inst.truth())
        for rec in (inst.all_records + inst.logger.records)[-8:]:
            print('    LOG', rec)
    r.close()
