#!/venv/bin/python
"""Writes /verif/MANIFEST.json from vlib/registry.py and validates it against the schema."""
import json
import os
import sys

VERIF = os.path.dirname(os.path.dirname(os.path.abspath(__file__)))
sys.path.insert(0, VERIF)
from vlib.registry import CHECKS, GUARD, NOT_APPLICABLE, HOOK_COMMITS, ENGINES  # noqa: E402

props = [json.loads(line) for line in open(os.path.join(VERIF, 'properties.jsonl'))]
ids = [p['id'] for p in props]
checks = []
for pid in ids:
    if pid not in CHECKS:
        continue
    c = CHECKS[pid]
    checks.append({
        'property_id': pid,
        'quick_cmd': f'/venv/bin/python run_check.py {pid} --tier quick',
        'thorough_cmd': f'/venv/bin/python run_check.py {pid} --tier thorough',
        'evidence_file': f'/verif/evidence/{pid}.json',
        'replay_cmd_template': f'/venv/bin/python run_check.py {pid} --replay {{path}}',
        'engine': c['engine'],
        'level_claimed': {'category': c['category'], 'text': c['text'], 'design_ref': c['design_ref']},
        'level_note': c['note'],
        'technique': c['technique'],
    })
manifest = {
    'version': 1,
    'setup_cmd': './setup.sh',
    'hooks': {'guard': GUARD,
              'enable': ('no hook exists in /repo: every seam is monkey-patched from /verif/clustersim; the guard '
                         'variable is reserved and unused'),
              'baseline_off_cmd': '/venv/bin/python tools/run_baseline.py',
              'source_commits': HOOK_COMMITS,
              'add_only': True},
    'engines': ENGINES,
    'checks': checks,
    'notes': ('Property-based testing / fuzzing only. Exit codes of every check: 0 held, 1 VIOLATION (replay file '
              'written under replays/), 2 harness error (never a VIOLATION). Known findings: known_findings.json. '
              'Sensitivity self-test: selftest.py (mutants/ and seeded/).'),
    'not_applicable': [{'property_id': pid, 'reason': NOT_APPLICABLE[pid]} for pid in ids
                       if pid not in CHECKS],
}
missing = [pid for pid in ids if pid not in CHECKS and pid not in NOT_APPLICABLE]
if missing:
    sys.exit(f'properties neither claimed nor listed as not applicable: {missing}')
path = os.path.join(VERIF, 'MANIFEST.json')
with open(path, 'w') as f:
    json.dump(manifest, f, indent=1)
import jsonschema  # noqa: E402
jsonschema.validate(manifest, json.load(open('/root/.vp/MANIFEST.schema.json')))
print(f'MANIFEST.json written: {len(checks)} checks, {len(manifest["not_applicable"])} not claimed')
