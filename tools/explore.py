#!/venv/bin/python
"""Random exploration with all global monitors, bucketing signatures (development tool, not a check)."""
import collections
import os
import sys
import time
import warnings
warnings.filterwarnings('ignore')
sys.path.insert(0, os.path.dirname(os.path.dirname(os.path.abspath(__file__))))
from vlib.core import setup_paths
setup_paths()
import hypothesis
from hypothesis import given, settings, HealthCheck, Phase
from clustersim.episode import episode_st, Profile, Runner
from clustersim.monitors import InternalErrorMonitor, StateGraphMonitor, ConvergenceMonitor

N = int(os.environ.get('NEP', '100'))
SEED = int(os.environ.get('SEED', '1'))
counter = collections.Counter()
first = {}
stats = collections.Counter()
crit = collections.Counter()


class P(Profile):
    user_ops = ()
    sv_failure = ('CONTINUE', 'RESYNC')


@hypothesis.seed(SEED)
@settings(max_examples=N, deadline=None, database=None, phases=[Phase.generate],
          suppress_health_check=list(HealthCheck))
@given(episode_st(P))
def explore(ep):
    mons = [InternalErrorMonitor(), StateGraphMonitor(), ConvergenceMonitor(ep['config'])]
    r = Runner(ep, mons)
    try:
        r.run_prefix()
        r.run_suffix(boot_dead=True)
        sigs = set()
        for m in mons:
            for sig, detail in m.finish(r.world):
                sigs.add(sig)
                first.setdefault(sig, (detail, ep))
        from clustersim.monitors import instance_records
        for inst in r.world.instances:
            for t, lvl, msg in instance_records(inst):
                if lvl == 'CRIT':
                    crit[msg[:70]] += 1
        for s in sigs:
            counter[s] += 1
        stats['episodes'] += 1
        stats['faults'] += r.faults_applied
        stats['harness_errors'] += len(r.world.harness_errors)
        if r.world.harness_errors:
            first.setdefault('HARNESS', (r.world.harness_errors, ep))
    finally:
        r.close()


t0 = time.time()
explore()
print(f'{dict(stats)} in {time.time() - t0:.1f}s')
for sig, c in counter.most_common():
    print(f'{c:5d} {sig}')
    print('       ', str(first[sig][0])[:400])
print('CRIT records:', crit.most_common(12))
if os.environ.get('DUMP'):
    import json
    sig = os.environ['DUMP']
    for s in first:
        if sig in s:
            print(json.dumps(first[s][1]))
            break
