#!/venv/bin/python
"""Independent confirmation of a seeded change: tools/verify_seed.py <src seeded dir> <name> [test files...]

Creates a scratch worktree of /repo HEAD, checks that patch.diff applies, that the demonstration fails with it and
passes without it, that the given existing test files pass with it; then copies the seed to /verif/seeded/<name>/
(with a 'verified' block added to meta.json) and removes the worktree."""
import json
import os
import shutil
import subprocess
import sys
import tempfile

src, name = sys.argv[1], sys.argv[2]
tests = sys.argv[3:]
VERIF = os.path.dirname(os.path.dirname(os.path.abspath(__file__)))
wt = tempfile.mkdtemp(prefix='vseed-', dir='/tmp')
os.rmdir(wt)
subprocess.run(['git', '-C', '/repo', 'worktree', 'add', '-q', '--detach', wt, 'HEAD'], check=True)
env = dict(os.environ, PYTHONPATH=wt)
result = {}
try:
    shutil.copytree(src, os.path.join(wt, 'seeded'))
    patch = os.path.join(wt, 'seeded', 'patch.diff')
    demo = next(f for f in sorted(os.listdir(src)) if f.startswith('demo') and f.endswith('.py'))
    if demo.endswith('_test.py') or demo.startswith('demo_test'):
        demo_cmd = ['/venv/bin/python', '-m', 'pytest', '-q', '-p', 'no:cacheprovider', f'seeded/{demo}']
    else:
        demo_cmd = ['/venv/bin/python', f'seeded/{demo}']

    def run(cmd):
        return subprocess.run(cmd, cwd=wt, env=env, capture_output=True, text=True)

    r = run(['git', 'apply', '--check', patch])
    result['applies'] = r.returncode == 0
    if not result['applies']:
        print('patch does not apply:', r.stderr)
        sys.exit(1)
    r = run(demo_cmd)
    result['demo_without_change_exit'] = r.returncode
    run(['git', 'apply', patch])
    r = run(demo_cmd)
    result['demo_with_change_exit'] = r.returncode
    result['demo_with_change_tail'] = (r.stdout + r.stderr)[-300:]
    if tests:
        r = run(['/venv/bin/python', '-m', 'pytest', '-q', '-p', 'no:cacheprovider'] + tests)
        result['existing_tests'] = {'files': tests, 'exit': r.returncode, 'tail': r.stdout.strip().splitlines()[-1:]}
    ok = (result['demo_without_change_exit'] == 0 and result['demo_with_change_exit'] != 0
          and (not tests or result['existing_tests']['exit'] == 0))
    result['confirmed'] = ok
    print(json.dumps(result, indent=1))
    if ok:
        dst = os.path.join(VERIF, 'seeded', name)
        if os.path.isdir(dst):
            shutil.rmtree(dst)
        shutil.copytree(src, dst)
        meta_path = os.path.join(dst, 'meta.json')
        meta = json.load(open(meta_path))
        meta['verified'] = result
        meta['verified']['base_commit'] = subprocess.run(['git', '-C', '/repo', 'rev-parse', '--short', 'HEAD'],
                                                         capture_output=True, text=True).stdout.strip()
        json.dump(meta, open(meta_path, 'w'), indent=1)
        print('copied to', dst)
finally:
    subprocess.run(['git', '-C', '/repo', 'worktree', 'remove', '--force', wt])
sys.exit(0 if result.get('confirmed') else 1)
