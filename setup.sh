#!/bin/sh
# Offline setup: everything the checks need besides /repo's own environment (/venv).
set -e
cd "$(dirname "$0")"
/venv/bin/python -c "import hypothesis" 2>/dev/null || \
  /venv/bin/pip install -q --no-index --find-links /opt/veriftools/wheels hypothesis
if [ ! -d .deps/atheris ]; then
  /venv/bin/pip install -q --no-index --find-links /opt/veriftools/wheels --target .deps atheris || \
    echo "atheris not installable: the C15 fuzz campaign will be skipped (stated in its evidence)"
fi
mkdir -p evidence replays
/venv/bin/python -c "import sys; sys.path.insert(0, '.'); import vlib.core, clustersim.world; print('setup ok')"
