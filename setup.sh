#!/bin/sh
# Offline setup: everything the checks need besides /repo's own environment (/venv).
set -e
cd "$(dirname "$0")"
/venv/bin/python -c "import hypothesis" 2>/dev/null || \
  /venv/bin/pip install -q --no-index --find-links /opt/veriftools/wheels hypothesis
# (no registered target uses atheris: it is not installed - see DESIGN.md 10.6)
mkdir -p evidence replays
/venv/bin/python -c "import sys; sys.path.insert(0, '.'); import vlib.core, clustersim.world; print('setup ok')"
