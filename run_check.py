#!/venv/bin/python
"""Entry point: python run_check.py <PROPERTY_ID> --tier quick|thorough [--replay FILE]"""
import os
import sys
import warnings

warnings.filterwarnings('ignore')
sys.path.insert(0, os.path.dirname(os.path.abspath(__file__)))
from vlib.core import main  # noqa: E402

if __name__ == '__main__':
    try:
        code = main()
    except SystemExit:
        raise
    except BaseException:
        import traceback
        traceback.print_exc()
        print('HARNESS-ERROR uncaught exception in runner')
        code = 2
    sys.exit(code)
